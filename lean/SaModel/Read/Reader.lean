import SaModel.Read.DVal
import SaModel.Spec.Decode
import SaModel.Codec.Time
import SaModel.Codec.Decimal
import SaModel.Basic.Float
/-
Executable model of serde_arrow's random-access readers
(serde_arrow/src/internal/deserialization/*.rs, internal/utils/array_view_ext.rs, utils/array_ext.rs::get_bit_buffer).

Every function takes `fx : Fixes`: `Fixes.all` is the code that exists after the `fix:` commits,
`Fixes.pinned` the pinned tree (the `…Pinned` abbreviations at the end).  Each Rust expression that can
unwind (indexing, slicing, `%`, `*` and `+` with overflow checks) is a `panic` outcome where it is reachable.

  `new`          ArrayDeserializer::new — what is validated when the reader tree is built
  `isSome`       RandomAccessDeserializer::is_some
  `readAnySome`  deserialize_any_some           `readAny`  deserialize_any (trait default: is_some, then …_some / visit_none)
  `readAs`       the typed reads, driven by a `Target` the way std impls / derive(Deserialize) drive a Deserializer

Reads recompute what `new` stored in the reader (`n` as usize, the FixedSizeBinary length); they are only
meaningful after `new` succeeded, which is how every theorem and the driver use them.
-/
namespace SaModel.Read
open SaModel

/-! ### primitives -/

/-- `get_bit_buffer(data, offset, idx)` (utils/array_ext.rs); with the fix the checked add fails exactly when
the byte lookup would (buffers are shorter than 2^61 bytes), so both report "Invalid access in bitset" -/
def getBitBuffer (fx : Fixes) (b : Bits) (idx : Nat) : R Bool :=
  if !fx.bitAdd && idx + b.offset > usizeMax then panic "get_bit_buffer: idx + offset overflows"
  else
    match b.data[(idx + b.offset) / 8]? with
    | none => fail "Invalid access in bitset"
    | some byte => .ok (byte.toNat.testBit ((idx + b.offset) % 8))

/-- `if let Some(validity) = … { bitset_is_set(validity, idx)? } else { true }` -/
def validityIsSet (fx : Fixes) (v : Option Bits) (idx : Nat) : R Bool :=
  match v with
  | none => .ok true
  | some b => getBitBuffer fx b idx

/-- `Offset::try_into_usize` / `usize::try_from(i32 | i64)` -/
def tryIntoUsize (x : Int) : R Nat :=
  if 0 ≤ x then .ok x.toNat else fail "out of range integral type conversion attempted"

def getRequired {α} (x : R (Option α)) : R α := do
  match (← x) with
  | some v => pure v
  | none => fail "Required value was not defined"

def optIsSome {α} (x : R (Option α)) : R Bool := do
  pure (← x).isSome

/-- `PrimitiveView::get` -/
def primGet (fx : Fixes) (v : Option Bits) (vals : List Int) (idx : Nat) : R (Option Int) :=
  match vals[idx]? with
  | none => fail "Access beyond array length"
  | some x => do
    if (← validityIsSet fx v idx) then pure (some x) else pure none

/-- `BoolDeserializer::get` -/
def boolGet (fx : Fixes) (len : Nat) (v : Option Bits) (vals : Bits) (idx : Nat) : R (Option Bool) :=
  if idx ≥ len then fail "Out of bounds access"
  else do
    if (← validityIsSet fx v idx) then pure (some (← getBitBuffer fx vals idx)) else pure none

/-- `BytesView::get` (array_view_ext.rs) -/
def bytesGet (fx : Fixes) (v : Option Bits) (offs : List Int) (data : Bytes) (idx : Nat) : R (Option Bytes) :=
  if (if fx.bytesGet then idx + 1 ≥ offs.length else idx + 1 > offs.length) then
    fail "Invalid access: tried to get element of array"
  else do
    if (← validityIsSet fx v idx) then
      match offs[idx]?, offs[idx + 1]? with
      | some s, some e => do
        let start ← tryIntoUsize s
        let stop ← tryIntoUsize e
        if start ≤ stop ∧ stop ≤ data.length then pure (some ((data.drop start).take (stop - start)))
        else if fx.bytesGet then fail "Invalid offsets" else panic "BytesView::get: data[start..end]"
      | _, _ => panic "BytesView::get: offsets[idx + 1]"
    else pure none

/-- the bytes a 128-bit view descriptor designates (`BytesViewView::get`, inner closure) -/
def viewBytes (buffers : List Bytes) (desc : Nat) : R Bytes :=
  let len := desc % 4294967296
  if len ≤ 12 then .ok (Spec.u128Bytes desc 4 len)
  else
    match buffers[(desc >>> 64) % 4294967296]? with
    | none => fail "invalid state in bytes deserialization"
    | some buf =>
      let off := (desc >>> 96) % 4294967296
      if off + len ≤ buf.length then .ok ((buf.drop off).take len)
      else fail "invalid state in bytes deserialization"

/-- `BytesViewView::get` -/
def viewGet (fx : Fixes) (v : Option Bits) (views : List Nat) (buffers : List Bytes) (idx : Nat) : R (Option Bytes) :=
  match views[idx]? with
  | none => fail "Invalid access: tried to get element of array"
  | some desc => do
    if (← validityIsSet fx v idx) then pure (some (← viewBytes buffers desc)) else pure none

/-- `impl ViewAccess<str> for V: ViewAccess<[u8]>`: `std::str::from_utf8` on access -/
def asStr (x : R (Option Bytes)) : R (Option Bytes) := do
  match (← x) with
  | some b => if validUtf8 b then pure (some b) else fail "invalid utf-8 sequence"
  | none => pure none

/-- `FixedSizeBinaryDeserializer::new`: `(n, len)` -/
def fsbNew (fx : Fixes) (n : Int) (data : Bytes) : R (Nat × Nat) :=
  if n < 0 then fail "out of range integral type conversion attempted"
  else if n.toNat = 0 then
    if fx.fsbZero then
      (if data.length = 0 then .ok (0, 0) else fail "Invalid FixedSizeBinary array: not evenly divisible")
    else panic "FixedSizeBinaryDeserializer::new: data.len() % 0"
  else if data.length % n.toNat ≠ 0 then fail "Invalid FixedSizeBinary array: not evenly divisible"
  else .ok (n.toNat, data.length / n.toNat)

/-- `FixedSizeBinaryDeserializer::get` -/
def fsbGet (fx : Fixes) (n len : Nat) (v : Option Bits) (data : Bytes) (idx : Nat) : R (Option Bytes) :=
  if idx ≥ len then fail "Out of bounds access"
  else do
    if (← validityIsSet fx v idx) then
      if (idx + 1) * n ≤ data.length then pure (some ((data.drop (idx * n)).take n))
      else panic "FixedSizeBinaryDeserializer::get: data[start..end]"
    else pure none

/-- `ListDeserializer::get` / the head of `MapDeserializer::deserialize_map`: `(start, end)` -/
def listRange (fx : Fixes) (offs : List Int) (idx : Nat) : R (Nat × Nat) :=
  if idx + 1 ≥ offs.length then fail "Out of bounds access"
  else
    match offs[idx]?, offs[idx + 1]? with
    | some s, some e => do
      let start ← tryIntoUsize s
      let stop ← tryIntoUsize e
      if fx.offsetsOrder && start > stop then fail "Invalid offsets: element ends before it starts"
      else pure (start, stop)
    | _, _ => panic "offsets[idx + 1]"

/-- `FixedSizeListDeserializer::deserialize_seq`: `(idx * n, (idx + 1) * n)` -/
def fslRange (fx : Fixes) (len : Nat) (n : Int) (idx : Nat) : R (Nat × Nat) :=
  if idx ≥ len then fail "Out of bounds access"
  else do
    let n ← tryIntoUsize n
    if (idx + 1) * n > usizeMax then
      (if fx.fslMul then fail "Out of bounds access" else panic "FixedSizeListDeserializer: idx * n overflows")
    else pure (idx * n, (idx + 1) * n)

/-- `SeqAccess` / `MapAccess` loops: elements `s, s+1, …`, `n` of them, stopping at the first error -/
def readRange {α} (f : Nat → R α) : Nat → Nat → R (List α)
  | _, 0 => .ok []
  | s, n + 1 => do
    let x ← f s
    let xs ← readRange f (s + 1) n
    pure (x :: xs)

/-! ### construction: `ArrayDeserializer::new` -/

/-- `get_strategy_from_metadata(..)?`: an unknown strategy string is a construction error -/
def strategyOk (m : Metadata) : R Unit :=
  match m.lookup "SERDE_ARROW:strategy" with
  | none => .ok ()
  | some s =>
    if s == "InconsistentTypes" || s == "TupleAsStruct" || s == "MapAsStruct" || s == "UnknownVariant" then .ok ()
    else fail "Unknown strategy"

def isIntPrim : PrimTy → Bool
  | .int8 | .int16 | .int32 | .int64 | .uint8 | .uint16 | .uint32 | .uint64 => true
  | _ => false

mutual
def new (fx : Fixes) : Arr → R Unit
  | .null _ | .boolean _ _ _ | .prim _ _ _ | .time _ _ _ _ | .decimal128 _ _ _ _ => .ok ()
  | .timestamp _ tz _ _ =>
    match tz with
    | none => .ok ()
    | some tz => if tz.toLower == "utc" then .ok () else fail "Unsupported timezone"
  | .bytes _ _ _ _ | .bytesView _ _ _ _ => .ok ()
  | .fixedSizeBinary n _ data => do let _ ← fsbNew fx n data; pure ()
  | .struct _ _ fs => newFields fx fs
  | .list _ _ _ fm el => do strategyOk fm.metadata; new fx el
  | .fixedSizeList _ _ n fm el => do
    strategyOk fm.metadata
    new fx el
    let _ ← tryIntoUsize n
    pure ()
  | .map _ _ mm ks vs => do
    strategyOk mm.keys.metadata
    new fx ks
    strategyOk mm.values.metadata
    new fx vs
  | .dictionary ks vs =>
    match ks, vs with
    | .prim kty _ _, .bytes vty vv _ _ =>
      if isIntPrim kty && Spec.isUtf8Ty vty then
        (if vv.isSome then fail "Null for non-nullable type: dictionaries do not support nullable values" else .ok ())
      else fail "Unsupported dictionary array type"
    | _, _ => fail "Unsupported dictionary array type"
  | .union types offs fs =>
    match offs with
    | none => fail "Only dense unions are supported"
    | some o =>
      if types.length ≠ o.length then fail "Offsets and type ids must have the same length"
      else newUFields fx fs 0
def newFields (fx : Fixes) : ArrFields → R Unit
  | .nil => .ok ()
  | .cons fm a rest => do
    strategyOk fm.metadata
    new fx a
    newFields fx rest
def newUFields (fx : Fixes) : ArrUFields → Nat → R Unit
  | .nil, _ => .ok ()
  | .cons tid fm a rest, k => do
    if tid ≠ Int.ofNat k then fail "Only unions with consecutive type ids are currently supported"
    else do
      strategyOk fm.metadata
      new fx a
      newUFields fx rest (k + 1)
end

/-- `ViewExt::len` -/
def vlen : Arr → Nat
  | .null len => len
  | .boolean len _ _ => len
  | .prim _ _ vals | .time _ _ _ vals | .timestamp _ _ _ vals | .decimal128 _ _ _ vals => vals.length
  | .bytes _ _ offs _ => offs.length - 1
  | .bytesView _ _ views _ => views.length
  | .fixedSizeBinary n _ data => if n ≤ 0 then 0 else data.length / n.toNat
  | .struct len _ _ => len
  | .list _ _ offs _ _ => offs.length - 1
  | .fixedSizeList len _ _ _ _ => len
  | .map _ offs _ _ _ => offs.length - 1
  | .dictionary ks _ =>
    match ks with
    | .prim _ _ vals => vals.length
    | _ => 0
  | .union types _ _ => types.length

/-! ### `is_some` -/

def isUtf8View : ViewTy → Bool
  | .utf8View => true
  | .binaryView => false

/-- the `ViewAccess::get` of a Bytes / BytesView column, with UTF-8 validation for the string types -/
def bytesColGet (fx : Fixes) (ty : BytesTy) (v : Option Bits) (offs : List Int) (data : Bytes) (idx : Nat) : R (Option Bytes) :=
  if Spec.isUtf8Ty ty then asStr (bytesGet fx v offs data idx) else bytesGet fx v offs data idx

def viewColGet (fx : Fixes) (ty : ViewTy) (v : Option Bits) (views : List Nat) (buffers : List Bytes) (idx : Nat) : R (Option Bytes) :=
  if isUtf8View ty then asStr (viewGet fx v views buffers idx) else viewGet fx v views buffers idx

def fsbColGet (fx : Fixes) (n : Int) (v : Option Bits) (data : Bytes) (idx : Nat) : R (Option Bytes) := do
  let (n', len) ← fsbNew fx n data
  fsbGet fx n' len v data idx

def nullCheck (fx : Fixes) (len idx : Nat) : R Unit :=
  if fx.nullLen && idx ≥ len then fail "Out of bounds access" else .ok ()

def isSome (fx : Fixes) : Arr → Nat → R Bool
  | .null len, idx => do nullCheck fx len idx; pure false
  | .boolean len v vals, idx => optIsSome (boolGet fx len v vals idx)
  | .prim _ v vals, idx | .time _ _ v vals, idx | .timestamp _ _ v vals, idx | .decimal128 _ _ v vals, idx =>
    optIsSome (primGet fx v vals idx)
  | .bytes ty v offs data, idx => optIsSome (bytesColGet fx ty v offs data idx)
  | .bytesView ty v views buffers, idx => optIsSome (viewColGet fx ty v views buffers idx)
  | .fixedSizeBinary n v data, idx => optIsSome (fsbColGet fx n v data idx)
  | .struct len v _, idx => if idx ≥ len then fail "Out of bounds access" else validityIsSet fx v idx
  | .list _ v offs _ _, idx => if idx + 1 ≥ offs.length then fail "Out of bounds access" else validityIsSet fx v idx
  | .fixedSizeList len v _ _ _, idx => if idx ≥ len then fail "Out of bounds access" else validityIsSet fx v idx
  | .map v offs _ _ _, idx => if idx + 1 ≥ offs.length then fail "Out of bounds access" else validityIsSet fx v idx
  | .dictionary ks _, idx =>
    match ks with
    | .prim _ v vals => optIsSome (primGet fx v vals idx)
    | _ => fail "Unsupported dictionary array type"
  | .union types _ _, idx => if idx ≥ types.length then fail "Access beyond bounds" else .ok true

/-! #### the codecs of the temporal / decimal readers: the functions of C14 / C15 (`SaModel/Codec/*.lean`) -/

def readUnit : SaModel.TimeUnit → Codec.TimeUnit
  | .second => .second | .millisecond => .millisecond | .microsecond => .microsecond | .nanosecond => .nanosecond

/-- the UTF-8 bytes of a rendered text -/
def charsBytes (cs : List Char) : Bytes := strBytes (String.ofList cs)

/-- `DateDeserializer::get_string_repr` (Date32 / Date64): fails outside chrono's date range -/
def dateRepr (ty : PrimTy) (x : Int) : R Bytes := do
  pure (charsBytes (← Codec.dateToString (match ty with | .date64 => .date64 | _ => .date32) x))

/-- `TimeDeserializer::get_string_repr`: fails for negative values and values ≥ 24 h -/
def timeRepr (u : SaModel.TimeUnit) (x : Int) : R Bytes := do
  pure (charsBytes (← Codec.timeToString (readUnit u) x))

/-- `is_utc_timestamp`, as stored by `TimestampDeserializer::new` -/
def tzIsUtc (tz : Option String) : Bool :=
  match tz with
  | some tz => tz.toLower == "utc"
  | none => false

/-- `TimestampDeserializer::get_string_repr`: fails outside chrono's range -/
def timestampRepr (u : SaModel.TimeUnit) (tz : Option String) (x : Int) : R Bytes := do
  pure (charsBytes (← Codec.timestampToString (readUnit u) (tzIsUtc tz) x))

/-- `format_arrow_duration_as_span` (total) -/
def durationRepr (u : SaModel.TimeUnit) (x : Int) : Bytes := charsBytes (Codec.formatArrowDurationAsSpan x (readUnit u))

/-- `DecimalDeserializer::with_value`: `format_decimal` into the 168-byte buffer.  A Decimal128 view holds `i128`
values and an `i8` scale, where `Decimal.formatDecimal` is total (`Props.C15`, `formatDecimal_eq`; restated for this
function as `Props.C02.decimalRepr_spec`); the empty text outside that domain is never produced by a view -/
def decimalRepr (scale : Int) (x : Int) : Bytes :=
  match Decimal.formatDecimal x scale with
  | .ok b => b
  | .error _ => []

/-- `f64 as f32` on bit patterns (round to nearest even, overflow to ±inf; every NaN becomes the canonical quiet NaN —
Rust does not specify NaN payloads of `as`, the driver compares NaNs as a class) -/
def f64ToF32 (x : Int) : Int := Int.ofNat (Float.convert Float.f64 Float.f32 (x.toNat % 18446744073709551616))

/-- string-ish reads of the temporal / decimal columns: the required value through its codec, handed over as `wrap` says -/
def codecRead (fx : Fixes) (fmt : Int → R DVal) (v : Option Bits) (vals : List Int) (idx : Nat) : R DVal := do
  fmt (← getRequired (primGet fx v vals idx))

/-- `visit_string(repr)` / `visit_byte_buf(repr.into_bytes())` -/
def ownedStr (r : R Bytes) : R DVal := do pure (.str .owned (← r))
def ownedBytes (r : R Bytes) : R DVal := do pure (.bytes .owned (← r))

/-! ### `deserialize_any` -/

/-- what `deserialize_any_some` of a primitive column hands to the visitor -/
def primAny : PrimTy → Int → DVal
  | .int8, x => .int .i8 x | .int16, x => .int .i16 x | .int32, x => .int .i32 x | .int64, x => .int .i64 x
  | .uint8, x => .int .u8 x | .uint16, x => .int .u16 x | .uint32, x => .int .u32 x | .uint64, x => .int .u64 x
  | .float16, x => .f32 (f16ToF32 x) | .float32, x => .f32 x | .float64, x => .f64 x
  | .date32, x => .int .i32 x | .date64, x => .int .i64 x

def timeAny : TimeTy → Int → DVal
  | .time32, x => .int .i32 x
  | .time64, x => .int .i64 x
  | .duration, x => .int .i64 x

/-- `DictionaryDeserializer::get_str` -/
def dictGetStr (fx : Fixes) (ks vs : Arr) (idx : Nat) : R Bytes :=
  match ks, vs with
  | .prim _ kv kvals, .bytes _ vv voffs vdata => do
    let k ← getRequired (primGet fx kv kvals idx)
    if k > i64Max then fail "out of range integral type conversion attempted" else
    let key ← tryIntoUsize k
    getRequired (asStr (bytesGet fx vv voffs vdata key))
  | _, _ => fail "Unsupported dictionary array type"

/-- the default `deserialize_any`: `if is_some(idx)? { deserialize_any_some } else { visit_none }` -/
def anyAt (fx : Fixes) (a : Arr) (some_ : Nat → R DVal) (idx : Nat) : R DVal := do
  if (← isSome fx a idx) then some_ idx else pure .none

/-- `EnumDeserializer::deserialize_enum`, up to the variant lookup: `(position of the variant, child offset)` -/
def unionSelect (fx : Fixes) (types : List Int) (offs : Option (List Int)) (nvariants : Nat) (idx : Nat) : R (Nat × Nat) :=
  if idx ≥ types.length then fail "Exhausted deserializer"
  else
    match offs with
    | none => fail "Only dense unions are supported"
    | some o =>
      -- `EnumDeserializer::new` stored `offsets` only after checking the two lengths agree
      if types.length ≠ o.length then fail "Offsets and type ids must have the same length" else
      match types[idx]?, o[idx]? with
      | some t, some off => do
        let off ← tryIntoUsize off
        if 0 ≤ t ∧ t.toNat < nvariants then pure (t.toNat, off)
        else if fx.enumTypeId then fail "Invalid type id in union" else panic "EnumDeserializer: variants[type_id]"
      | _, _ => panic "EnumDeserializer: offsets[idx]"

mutual
def readAnySome (fx : Fixes) : Arr → Nat → R DVal
  | .null len, idx => do nullCheck fx len idx; pure .unit
  | .boolean len v vals, idx => do pure (.bool (← getRequired (boolGet fx len v vals idx)))
  | .prim ty v vals, idx => do pure (primAny ty (← getRequired (primGet fx v vals idx)))
  | .time ty _ v vals, idx => do pure (timeAny ty (← getRequired (primGet fx v vals idx)))
  | .timestamp _ _ v vals, idx => do pure (.int .i64 (← getRequired (primGet fx v vals idx)))
  | .decimal128 _ s v vals, idx => do pure (.str .transient (decimalRepr s (← getRequired (primGet fx v vals idx))))
  | .bytes ty v offs data, idx => do
    let b ← getRequired (bytesColGet fx ty v offs data idx)
    pure (if Spec.isUtf8Ty ty then .str .borrowed b else .bytes .borrowed b)
  | .bytesView ty v views buffers, idx => do
    let b ← getRequired (viewColGet fx ty v views buffers idx)
    pure (if isUtf8View ty then .str .borrowed b else .bytes .borrowed b)
  | .fixedSizeBinary n v data, idx => do pure (.bytes .borrowed (← getRequired (fsbColGet fx n v data idx)))
  | .struct len _ fs, idx =>
    if idx ≥ len then fail "Exhausted deserializer"
    else do pure (.map (← readAnyFields fx fs idx))
  | .list _ _ offs _ el, idx => do
    let (s, e) ← listRange fx offs idx
    pure (.seq (DVals.ofList (← readRange (anyAt fx el (readAnySome fx el)) s (e - s))))
  | .fixedSizeList len _ n _ el, idx => do
    let (s, e) ← fslRange fx len n idx
    pure (.seq (DVals.ofList (← readRange (anyAt fx el (readAnySome fx el)) s (e - s))))
  | .map _ offs _ ks vs, idx => do
    let (s, e) ← listRange fx offs idx
    let es ← readRange (fun j => do
      let k ← anyAt fx ks (readAnySome fx ks) j
      let v ← anyAt fx vs (readAnySome fx vs) j
      pure (k, v)) s (e - s)
    pure (.map (DEntries.ofList es))
  | .dictionary ks vs, idx => do pure (.str .borrowed (← dictGetStr fx ks vs idx))
  | .union types offs fs, idx => do
    let (k, off) ← unionSelect fx types offs fs.length idx
    readAnyVariant fx fs k off
def readAnyFields (fx : Fixes) : ArrFields → Nat → R DEntries
  | .nil, _ => .ok .nil
  | .cons fm a rest, idx => do
    let v ← anyAt fx a (readAnySome fx a) idx
    let r ← readAnyFields fx rest idx
    pure (.cons (.str .transient (strBytes fm.name)) v r)
def readAnyVariant (fx : Fixes) : ArrUFields → Nat → Nat → R DVal
  | .nil, _, _ => panic "EnumDeserializer: variants[type_id]"
  | .cons _ fm a _, 0, off => do
    let p ← anyAt fx a (readAnySome fx a) off
    pure (.enum (.str .transient (strBytes fm.name)) p)
  | .cons _ _ _ rest, k + 1, off => readAnyVariant fx rest k off
end

def readAny (fx : Fixes) (a : Arr) (idx : Nat) : R DVal := anyAt fx a (readAnySome fx a) idx

/-! ### typed reads -/

/-- the `deserialize_*` methods whose answer is one scalar `visit_*` call -/
inductive Method where
  | bool | int (ty : IntTy) | f32 | f64 | char | str | string | bytes | byteBuf | unit | unitStruct
deriving Repr, BEq, DecidableEq

def notImpl {α} : R α := fail "Deserializer does not implement this method"

def intoInt (ty : IntTy) (x : Int) : R DVal :=
  if ty.inRange x then .ok (.int ty x) else fail "out of range integral type conversion attempted"

def isScalarValue (c : Nat) : Bool := c < 0xD800 || (0xE000 ≤ c && c ≤ 0x10FFFF)

/-- value handed to the visitor by `deserialize_<m>(visitor, idx)` -/
def scalar (fx : Fixes) (m : Method) : Arr → Nat → R DVal
  | .null len, idx =>
    match m with
    | .unit | .unitStruct => do nullCheck fx len idx; pure .unit
    | _ => notImpl
  | .boolean len v vals, idx =>
    match m with
    | .bool => do pure (.bool (← getRequired (boolGet fx len v vals idx)))
    | .int ty => do pure (.int ty (if (← getRequired (boolGet fx len v vals idx)) then 1 else 0))
    | _ => notImpl
  | .prim ty v vals, idx =>
    match ty with
    | .float16 | .float32 | .float64 =>
      match m with
      | .f32 => do
        let x ← getRequired (primGet fx v vals idx)
        pure (match ty with | .float16 => .f32 (f16ToF32 x) | .float64 => .f32 (f64ToF32 x) | _ => .f32 x)
      | .f64 => do
        let x ← getRequired (primGet fx v vals idx)
        pure (match ty with | .float16 => .f64 (f32ToF64 (f16ToF32 x)) | .float32 => .f64 (f32ToF64 x) | _ => .f64 x)
      | _ => notImpl
    | .date32 | .date64 =>
      match m with
      | .int .i32 => do intoInt .i32 (← getRequired (primGet fx v vals idx))
      | .int .i64 => do intoInt .i64 (← getRequired (primGet fx v vals idx))
      | .str | .string => codecRead fx (fun x => ownedStr (dateRepr ty x)) v vals idx
      | .bytes | .byteBuf => codecRead fx (fun x => ownedBytes (dateRepr ty x)) v vals idx
      | _ => notImpl
    | _ =>
      match m with
      | .bool => do pure (.bool ((← getRequired (primGet fx v vals idx)) != 0))
      | .char => do
        let x ← getRequired (primGet fx v vals idx)
        if IntTy.u32.inRange x then
          (if isScalarValue x.toNat then pure (.char x.toNat) else fail "converted integer out of range for `char`")
        else fail "out of range integral type conversion attempted"
      | .int t => do intoInt t (← getRequired (primGet fx v vals idx))
      | _ => notImpl
  | .time ty u v vals, idx =>
    match ty, m with
    | .duration, .int .i64 => do pure (.int .i64 (← getRequired (primGet fx v vals idx)))
    | .duration, .str => codecRead fx (fun x => pure (.str .transient (durationRepr u x))) v vals idx
    | .duration, .string => codecRead fx (fun x => pure (.str .owned (durationRepr u x))) v vals idx
    | .duration, .bytes => codecRead fx (fun x => pure (.bytes .transient (durationRepr u x))) v vals idx
    | .duration, .byteBuf => codecRead fx (fun x => pure (.bytes .owned (durationRepr u x))) v vals idx
    | .duration, _ => notImpl
    | _, .int .i32 => do intoInt .i32 (← getRequired (primGet fx v vals idx))
    | _, .int .i64 => do intoInt .i64 (← getRequired (primGet fx v vals idx))
    | _, .str | _, .string => codecRead fx (fun x => ownedStr (timeRepr u x)) v vals idx
    | _, .bytes | _, .byteBuf => codecRead fx (fun x => ownedBytes (timeRepr u x)) v vals idx
    | _, _ => notImpl
  | .timestamp u tz v vals, idx =>
    match m with
    | .int .i64 => do pure (.int .i64 (← getRequired (primGet fx v vals idx)))
    | .str | .string => codecRead fx (fun x => ownedStr (timestampRepr u tz x)) v vals idx
    | .bytes | .byteBuf => codecRead fx (fun x => ownedBytes (timestampRepr u tz x)) v vals idx
    | _ => notImpl
  | .decimal128 _ s v vals, idx =>
    match m with
    | .str => codecRead fx (fun x => pure (.str .transient (decimalRepr s x))) v vals idx
    | .string => codecRead fx (fun x => pure (.str .owned (decimalRepr s x))) v vals idx
    | _ => notImpl
  | .bytes ty v offs data, idx =>
    if Spec.isUtf8Ty ty then
      match m with
      | .str => do pure (.str .borrowed (← getRequired (bytesColGet fx ty v offs data idx)))
      | .string => do pure (.str .owned (← getRequired (bytesColGet fx ty v offs data idx)))
      | .bytes => do pure (.bytes .transient (← getRequired (bytesColGet fx ty v offs data idx)))
      | .byteBuf => do pure (.bytes .owned (← getRequired (bytesColGet fx ty v offs data idx)))
      | _ => notImpl
    else
      match m with
      | .bytes | .byteBuf => do pure (.bytes .borrowed (← getRequired (bytesColGet fx ty v offs data idx)))
      | _ => notImpl
  | .bytesView ty v views buffers, idx =>
    if isUtf8View ty then
      match m with
      | .str => do pure (.str .borrowed (← getRequired (viewColGet fx ty v views buffers idx)))
      | .string => do pure (.str .owned (← getRequired (viewColGet fx ty v views buffers idx)))
      | .bytes => do pure (.bytes .transient (← getRequired (viewColGet fx ty v views buffers idx)))
      | .byteBuf => do pure (.bytes .owned (← getRequired (viewColGet fx ty v views buffers idx)))
      | _ => notImpl
    else
      match m with
      | .bytes | .byteBuf => do pure (.bytes .borrowed (← getRequired (viewColGet fx ty v views buffers idx)))
      | _ => notImpl
  | .fixedSizeBinary n v data, idx =>
    match m with
    | .bytes | .byteBuf => do pure (.bytes .borrowed (← getRequired (fsbColGet fx n v data idx)))
    | _ => notImpl
  | .dictionary ks vs, idx =>
    match m with
    | .str => do pure (.str .borrowed (← dictGetStr fx ks vs idx))
    | .string => do pure (.str .owned (← dictGetStr fx ks vs idx))
    | _ => notImpl
  | _, _ => notImpl

def rejected {α} : R α := fail "invalid type: the visitor does not accept this value"

/-- does the visitor of the requested Rust type accept the visited value, and what does it make of it -/
def accept (t : Target) (d : DVal) : R DVal :=
  match t, d with
  | .unit, .unit | .unitStruct, .unit => .ok .unit
  | .bool, .bool b => .ok (.bool b)
  | .int ty, .int _ v => if ty.inRange v then .ok (.int ty v) else rejected
  | .f32, .f32 x => .ok (.f32 x)
  | .f64, .f64 x => .ok (.f64 x)
  | .char, .char c => .ok (.char c)
  | .string, .str _ b => .ok (.str .owned b)
  | .str, .str .borrowed b => .ok (.str .borrowed b)
  | .bytes, .bytes .borrowed b => .ok (.bytes .borrowed b)
  | .byteBuf, .bytes _ b => .ok (.bytes .owned b)
  | .byteBuf, .str _ b => .ok (.bytes .owned b)
  | _, _ => rejected

/-- the `deserialize_*` hint a scalar target calls -/
def methodOf : Target → Option Method
  | .unit => some .unit | .unitStruct => some .unitStruct
  | .bool => some .bool | .int ty => some (.int ty) | .f32 => some .f32 | .f64 => some .f64 | .char => some .char
  | .string => some .string | .str => some .str | .bytes => some .bytes | .byteBuf => some .byteBuf
  | _ => none

/-- `U8Deserializer` (elements of a binary column read as a sequence) -/
def u8As (t : Target) (b : UInt8) : R DVal :=
  match t with
  | .any => .ok (.int .u8 b.toNat)
  | .ignored => .ok .ignored
  | .int ty => if ty.inRange b.toNat then .ok (.int ty b.toNat) else fail "out of range integral type conversion attempted"
  | _ => fail "Unsupported: U8Deserializer does not implement this method"

/-- `visit_enum` over a string (`EnumAccess` of serde's `StrDeserializer`, and of `EnumAccess(&str)` of the string /
dictionary readers): the identifier is `visit_str(name)`, only unit variants carry no data -/
def strVariant : TVariants → Bytes → R DVal
  | .nil, _ => fail "unknown variant"
  | .cons n k rest, s =>
    if strBytes n == s then
      (match k with
       | .unit => .ok (.enum (.str .transient (strBytes n)) .unit)
       | _ => fail "invalid type: unit variant, expected a variant with data")
    else strVariant rest s

/-- `serde::de::value::StrDeserializer` (struct field names as map keys): `deserialize_enum` is `visit_enum`, everything
else forwards to `visit_str` -/
def strDeAs (t : Target) (name : String) : R DVal :=
  match t with
  | .enum byIndex vs => if byIndex then rejected else strVariant vs (strBytes name)
  | .any => .ok (.str .transient (strBytes name))
  | .ignored => .ok .ignored
  | .string => .ok (.str .owned (strBytes name))
  | .byteBuf => .ok (.bytes .owned (strBytes name))
  | .char => match name.toList with
    | [c] => .ok (.char c.toNat)
    | _ => rejected
  | _ => rejected

/-- the bytes of a binary-like column element, for `deserialize_seq` via `U8SliceDeserializer` -/
def binaryElems (fx : Fixes) : Arr → Nat → Option (R Bytes)
  | .bytes ty v offs data, idx =>
    if Spec.isUtf8Ty ty then none else some (getRequired (bytesColGet fx ty v offs data idx))
  | .bytesView ty v views buffers, idx =>
    if isUtf8View ty then none else some (getRequired (viewColGet fx ty v views buffers idx))
  | .fixedSizeBinary n v data, idx => some (getRequired (fsbColGet fx n v data idx))
  | _, _ => none

/-- the string of a string-like column element, for `deserialize_enum` via `EnumAccess(&str)` -/
def stringElem (fx : Fixes) : Arr → Nat → Option (R Bytes)
  | .bytes ty v offs data, idx =>
    if Spec.isUtf8Ty ty then some (getRequired (bytesColGet fx ty v offs data idx)) else none
  | .bytesView ty v views buffers, idx =>
    if isUtf8View ty then some (getRequired (viewColGet fx ty v views buffers idx)) else none
  | .dictionary ks vs, idx => some (dictGetStr fx ks vs idx)
  | _, _ => none

/-- the byte a `ByteBuf` takes from a list element read as `u8` -/
def byteOfD : DVal → UInt8
  | .int _ v => UInt8.ofNat v.toNat
  | _ => 0

/-- `StructDeserializer::item`: the row check of the typed struct reads (absent on the pinned tree) -/
def structItem (fx : Fixes) (len idx : Nat) : R Unit :=
  if fx.structIdx && idx ≥ len then fail "Out of bounds access" else .ok ()

def ArrUFields.nth : ArrUFields → Nat → Option (FieldMeta × Arr)
  | .nil, _ => none
  | .cons _ fm a _, 0 => some (fm, a)
  | .cons _ _ _ r, k + 1 => ArrUFields.nth r k

/-- state of a derived struct visitor: which target fields are filled, with what -/
abbrev Slots := List (Nat × DVal)

def Slots.get? (s : Slots) (k : Nat) : Option DVal := s.lookup k

/-- serde's `missing_field`: `None` for an `Option` target, an error otherwise -/
def slotOrMissing (t : Target) (s : Option DVal) : R DVal :=
  match s with
  | some v => .ok v
  | none => if t.isOption then .ok .none else fail "missing field"

/-- after the key loop: the struct value in target field order -/
def finishFields : TFields → Nat → Slots → R (List (DVal × DVal))
  | .nil, _, _ => .ok []
  | .cons n t rest, pos, slots => do
    let v ← slotOrMissing t (slots.get? pos)
    let r ← finishFields rest (pos + 1) slots
    pure ((.str .transient (strBytes n), v) :: r)

/-- `deserialize_tuple` / `deserialize_tuple_struct`: only the struct reader answers (visit_seq over its
fields); `readFields` reads the fields with the element targets -/
def tupleVisit (fx : Fixes) (readFields : ArrFields → R (List DVal)) (a : Arr) (idx : Nat) : R DVal :=
  match a with
  | .struct len _ fs => do
    structItem fx len idx
    pure (.seq (DVals.ofList (← readFields fs)))
  | _ => notImpl

/-- `deserialize_struct` with a derived visitor: `visit_map` over the struct reader's fields.  `readField slots
name child` is one `next_key` / `next_value` step (`none`: no such target field ⇒ the value is read as
`IgnoredAny`) -/
def structVisit (fx : Fixes) (readField : Slots → String → Arr → R (Option (Nat × DVal))) (tfs : TFields)
    (a : Arr) (idx : Nat) : R DVal :=
  match a with
  | .struct len _ fs => do
    structItem fx len idx
    let slots ← fs.toList.foldlM (fun (slots : Slots) (fm, child) => do
      match (← readField slots fm.name child) with
      | some kv => pure (slots ++ [kv])
      | none => do let _ ← readAny fx child idx; pure slots) []
    pure (.map (DEntries.ofList (← finishFields tfs 0 slots)))
  | _ => notImpl

mutual
def readAs (fx : Fixes) : Target → Arr → Nat → R DVal
  | .any, a, idx => readAny fx a idx
  | .ignored, a, idx => do let _ ← readAny fx a idx; pure .ignored
  | .unit, a, idx => do accept .unit (← scalar fx .unit a idx)
  | .unitStruct, a, idx => do accept .unitStruct (← scalar fx .unitStruct a idx)
  | .bool, a, idx => do accept .bool (← scalar fx .bool a idx)
  | .int ty, a, idx => do accept (.int ty) (← scalar fx (.int ty) a idx)
  | .f32, a, idx => do accept .f32 (← scalar fx .f32 a idx)
  | .f64, a, idx => do accept .f64 (← scalar fx .f64 a idx)
  | .char, a, idx => do accept .char (← scalar fx .char a idx)
  | .string, a, idx => do accept .string (← scalar fx .string a idx)
  | .str, a, idx => do accept .str (← scalar fx .str a idx)
  | .bytes, a, idx =>
    match a with
    | .list _ _ offs _ _ => do let _ ← listRange fx offs idx; rejected    -- visit_seq: `&[u8]` does not take sequences
    | _ => do accept .bytes (← scalar fx .bytes a idx)
  | .byteBuf, a, idx =>
    match a with
    | .list _ _ offs _ el => do
      let (s, e) ← listRange fx offs idx
      let xs ← readRange (fun j => do accept (.int .u8) (← scalar fx (.int .u8) el j)) s (e - s)
      pure (.bytes .owned (xs.map byteOfD))
    | _ => do accept .byteBuf (← scalar fx .byteBuf a idx)
  | .option t, a, idx => do
    if (← isSome fx a idx) then pure (.some (← readAs fx t a idx)) else pure .none
  | .newtype t, a, idx => readAs fx t a idx
  | .seq t, a, idx =>
    match a with
    | .list _ _ offs _ el => do
      let (s, e) ← listRange fx offs idx
      pure (.seq (DVals.ofList (← readRange (fun j => readAs fx t el j) s (e - s))))
    | .fixedSizeList len _ n _ el => do
      let (s, e) ← fslRange fx len n idx
      pure (.seq (DVals.ofList (← readRange (fun j => readAs fx t el j) s (e - s))))
    | _ =>
      match binaryElems fx a idx with
      | some rb => do
        let b ← rb
        pure (.seq (DVals.ofList (← b.mapM (u8As t))))
      | none => notImpl
  | .tuple ts, a, idx => tupleVisit fx (fun fs => readTupleFields fx ts fs idx) a idx
  | .tupleStruct ts, a, idx => tupleVisit fx (fun fs => readTupleFields fx ts fs idx) a idx
  | .map k v, a, idx =>
    match a with
    | .struct len _ fs => do
      structItem fx len idx
      let es ← fs.toList.mapM fun (fm, child) => do
        let kk ← strDeAs k fm.name
        let vv ← readAs fx v child idx
        pure (kk, vv)
      pure (.map (DEntries.ofList es))
    | .map _ offs _ ks vs => do
      let (s, e) ← listRange fx offs idx
      let es ← readRange (fun j => do
        let kk ← readAs fx k ks j
        let vv ← readAs fx v vs j
        pure (kk, vv)) s (e - s)
      pure (.map (DEntries.ofList es))
    | _ => notImpl
  | .struct tfs, a, idx =>
    structVisit fx (fun slots name child => readFieldAs fx tfs 0 slots name child idx) tfs a idx
  | .enum byIndex vs, a, idx =>
    match a with
    | .union types offs fs => do
      let (k, off) ← unionSelect fx types offs fs.length idx
      match ArrUFields.nth fs k with
      | none => panic "EnumDeserializer: variants[type_id]"
      | some (fm, child) =>
        readVariantAs fx vs (if byIndex then some k else none) fm.name (some (child, off))
    | _ =>
      match stringElem fx a idx with
      | some rs => do
        let s ← rs
        if byIndex then fail "Unsupported: EnumDeserializer does not implement deserialize_u64"
        else readVariantAsBytes fx vs s
      | none => notImpl
/-- the `visit_seq` of a tuple visitor over the struct reader's fields: element `i` from field `i`; a field
too few ⇒ `invalid_length`; surplus fields are not looked at -/
def readTupleFields (fx : Fixes) : Targets → ArrFields → Nat → R (List DVal)
  | .nil, _, _ => .ok []
  | .cons t rest, fs, idx =>
    match fs with
    | .nil => fail "invalid length"
    | .cons _ a frest => do
      let v ← readAs fx t a idx
      let r ← readTupleFields fx rest frest idx
      pure (v :: r)
/-- one `next_key` / `next_value` step: find the target field called `name`; duplicate ⇒ error, else read it -/
def readFieldAs (fx : Fixes) : TFields → Nat → Slots → String → Arr → Nat → R (Option (Nat × DVal))
  | .nil, _, _, _, _, _ => .ok none
  | .cons n t rest, pos, slots, name, child, idx =>
    if n == name then
      (if (slots.get? pos).isSome then fail "duplicate field"
       else do pure (some (pos, ← readAs fx t child idx)))
    else readFieldAs fx rest (pos + 1) slots name child idx
/-- `visit_enum` of a derived enum over `VariantItemDeserializer`: identify the variant (by name, or by the
type id when the identifier asks for `u64`), then read the payload from the child at its offset -/
def readVariantAs (fx : Fixes) : TVariants → Option Nat → String → Option (Arr × Nat) → R DVal
  | .nil, _, _, _ => fail "unknown variant"
  | .cons n k rest, sel, name, src =>
    if (match sel with | some i => i == 0 | none => n == name) then do
      pure (.enum (.str .transient (strBytes n)) (← readKind fx k src))
    else readVariantAs fx rest (sel.map (· - 1)) name src
/-- `visit_enum` over `EnumAccess(&str)` (string and dictionary columns): unit variants by name only -/
def readVariantAsBytes (fx : Fixes) : TVariants → Bytes → R DVal
  | .nil, _ => fail "unknown variant"
  | .cons n k rest, s =>
    if strBytes n == s then do pure (.enum (.str .transient (strBytes n)) (← readKind fx k none))
    else readVariantAsBytes fx rest s
/-- the `VariantAccess` call of the variant kind; `src = none` is the string `UnitVariant` accessor -/
def readKind (fx : Fixes) : VKind → Option (Arr × Nat) → R DVal
  | .unit, some (child, off) => do accept .unit (← scalar fx .unit child off)
  | .unit, none => .ok .unit
  | .newtype t, some (child, off) => readAs fx t child off
  | .tuple ts, some (child, off) => tupleVisit fx (fun fs => readTupleFields fx ts fs off) child off
  | .struct tfs, some (child, off) =>
    structVisit fx (fun slots name c => readFieldAs fx tfs 0 slots name c off) tfs child off
  | _, none => fail "Unsupported: cannot deserialize enums with data from strings"
end

/-! ### the record level: `Deserializer::from_marrow(&[field], &[view])` + `get(idx)` -/

/-- a single column wrapped the way `Deserializer::new` wraps it (root struct, no validity) -/
def record (fm : FieldMeta) (col : Arr) : Arr := .struct (vlen col) none (.cons fm col .nil)

/-- `Deserializer::get(idx)` then `T::deserialize(item)`: `none` when there is no such item -/
def readRecord (fx : Fixes) (t : Target) (fm : FieldMeta) (col : Arr) (idx : Nat) : Option (R DVal) :=
  if idx ≥ vlen col then none else some (readAs fx t (record fm col) idx)

abbrev readAnyPinned := readAny Fixes.pinned
abbrev readAsPinned := readAs Fixes.pinned
abbrev newPinned := new Fixes.pinned
abbrev isSomePinned := isSome Fixes.pinned

end SaModel.Read
