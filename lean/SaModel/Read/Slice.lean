import SaModel.Data.Arr
/-
`sliceView a o l` — the view marrow hands over for `array.slice(o, l)` (arrow-rs 55; arrow2 `sliced` differs
only in trimming bitmap bytes, which no reader can observe): an explicitly modelled *external* function, validated
against the dumped views on every run of the `slice` suite.

  bitmaps (validity, Boolean values): same bytes, bit offset += o
  primitive / temporal / decimal values, view descriptors: window [o, o+l)
  Utf8 / Binary / List / LargeList / Map: offsets window [o, o+l], data / children untouched (not rebased)
  FixedSizeBinary data: bytes [o·n, (o+l)·n);  FixedSizeList: child sliced to (o·n, l·n)
  Struct: every child sliced to (o, l);  Dictionary: keys sliced, values untouched
  dense Union: type ids and offsets windowed, children untouched;  sparse Union: children sliced
-/
namespace SaModel.Read
open SaModel

def shiftBits (b : Bits) (o : Nat) : Bits := { b with offset := b.offset + o }

def shiftV (v : Option Bits) (o : Nat) : Option Bits :=
  match v with
  | none => none
  | some b => some (shiftBits b o)

def window {α} (xs : List α) (o n : Nat) : List α := (xs.drop o).take n

mutual
def sliceView : Arr → Nat → Nat → Arr
  | .null _, _, l => .null l
  | .boolean _ v vals, o, l => .boolean l (shiftV v o) (shiftBits vals o)
  | .prim ty v vals, o, l => .prim ty (shiftV v o) (window vals o l)
  | .time ty u v vals, o, l => .time ty u (shiftV v o) (window vals o l)
  | .timestamp u tz v vals, o, l => .timestamp u tz (shiftV v o) (window vals o l)
  | .decimal128 p s v vals, o, l => .decimal128 p s (shiftV v o) (window vals o l)
  | .bytes ty v offs data, o, l => .bytes ty (shiftV v o) (window offs o (l + 1)) data
  | .bytesView ty v views buffers, o, l => .bytesView ty (shiftV v o) (window views o l) buffers
  | .fixedSizeBinary n v data, o, l => .fixedSizeBinary n (shiftV v o) (window data (o * n.toNat) (l * n.toNat))
  | .struct _ v fs, o, l => .struct l (shiftV v o) (sliceFields fs o l)
  | .list lg v offs fm el, o, l => .list lg (shiftV v o) (window offs o (l + 1)) fm el
  | .fixedSizeList _ v n fm el, o, l => .fixedSizeList l (shiftV v o) n fm (sliceView el (o * n.toNat) (l * n.toNat))
  | .map v offs mm ks vs, o, l => .map (shiftV v o) (window offs o (l + 1)) mm ks vs
  | .dictionary ks vs, o, l => .dictionary (sliceView ks o l) vs
  | .union types offs fs, o, l =>
    match offs with
    | some ofs => .union (window types o l) (some (window ofs o l)) fs
    | none => .union (window types o l) none (sliceUFields fs o l)
def sliceFields : ArrFields → Nat → Nat → ArrFields
  | .nil, _, _ => .nil
  | .cons fm a rest, o, l => .cons fm (sliceView a o l) (sliceFields rest o l)
def sliceUFields : ArrUFields → Nat → Nat → ArrUFields
  | .nil, _, _ => .nil
  | .cons i fm a rest, o, l => .cons i fm (sliceView a o l) (sliceUFields rest o l)
end

end SaModel.Read
