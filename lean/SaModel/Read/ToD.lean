import SaModel.Read.Reader
/-
`toD a lv`: how the logical value `lv` of a slot of array `a` (Spec.decode) looks when presented through
`deserialize_any` — the only array-dependent parts are *types and names* (integer width of the column, field and
variant names, f16 widening), never buffers.  This is the right-hand side of C02 (`read_any_decode`).
`cast` is the typed counterpart for the target shapes with an obvious value-level meaning.
-/
namespace SaModel.Read
open SaModel

def ArrUFields.findId : ArrUFields → Int → Option (FieldMeta × Arr)
  | .nil, _ => none
  | .cons i fm a r, t => if i == t then some (fm, a) else ArrUFields.findId r t

mutual
def toD : Arr → LVal → DVal
  | _, .null => .none
  | _, .bool b => .bool b
  | .prim ty _ _, .int x => primAny ty x
  | .prim ty _ _, .float x => primAny ty x
  | .time ty _ _ _, .int x => timeAny ty x
  | .timestamp _ _ _ _, .int x => .int .i64 x
  | .decimal128 _ s _ _, .int x => .str .transient (decimalRepr s x)
  | .dictionary _ _, .str b => .str .borrowed b
  | _, .str b => .str .borrowed b
  | _, .bin b => .bytes .borrowed b
  | .struct _ _ fs, .struct lfs => .map (toDFields fs lfs)
  | .list _ _ _ _ el, .list items => .seq (toDList el items)
  | .fixedSizeList _ _ _ _ el, .list items => .seq (toDList el items)
  | .map _ _ _ ks vs, .map es => .map (toDEntries ks vs es)
  | .union _ _ fs, .union t v =>
    match ArrUFields.findId fs t with
    | some (fm, child) => .enum (.str .transient (strBytes fm.name)) (toD child v)
    | none => .none
  | _, _ => .none
def toDList : Arr → LVals → DVals
  | _, .nil => .nil
  | el, .cons v r => .cons (toD el v) (toDList el r)
def toDFields : ArrFields → LFields → DEntries
  | .cons fm a rest, .cons _ v lrest => .cons (.str .transient (strBytes fm.name)) (toD a v) (toDFields rest lrest)
  | _, _ => .nil
def toDEntries : Arr → Arr → LEntries → DEntries
  | _, _, .nil => .nil
  | ks, vs, .cons k v r => .cons (toD ks k) (toD vs v) (toDEntries ks vs r)
end

/-! `utf8Ok`: all string payloads of a logical value are well-formed UTF-8 (Arrow validity of Utf8 columns,
which `Spec.decode` itself does not look at) -/
mutual
def utf8Ok : LVal → Bool
  | .str b => validUtf8 b
  | .list items => utf8OkList items
  | .struct fs => utf8OkFields fs
  | .map es => utf8OkEntries es
  | .union _ v => utf8Ok v
  | _ => true
def utf8OkList : LVals → Bool
  | .nil => true
  | .cons v r => utf8Ok v && utf8OkList r
def utf8OkFields : LFields → Bool
  | .nil => true
  | .cons _ v r => utf8Ok v && utf8OkFields r
def utf8OkEntries : LEntries → Bool
  | .nil => true
  | .cons k v r => utf8Ok k && utf8Ok v && utf8OkEntries r
end

/-! ### value-level meaning of typed reads (`cast`): the leaf table

`castLeaf t a lv` for a scalar target `t`, a column `a` and the non-null logical value `lv` of one of its slots:
`some (.ok d)`: the read must return `d`; `some (.error _)`: the read must fail — the value is not representable in the
target (C05: exact or error), the codec refuses it (a date outside chrono's range, a time of day ≥ 24 h), or the reader
does not offer this (target, column) pair at all (`unsupported`).  The table is TOTAL: it never answers `none`
(`castLeaf_isSome`), so no supported pair is left without a claim.

Rows: booleans; integers by VALUE into any integer width (also Date32 / Date64 / Time32 / Time64 / Duration /
Timestamp into the widths the reader offers), integers as `char`; floats: exact widenings f16 → f32 → f64 and the
documented lossy narrowing f64 → f32 (`f64ToF32`: IEEE round-to-nearest-even on bit patterns); strings of Utf8 /
LargeUtf8 / Utf8View AND Dictionary columns as `String`, borrowed `&str`; strings as `ByteBuf` (not from a dictionary:
the reader has no `deserialize_byte_buf` there); binary as `&[u8]` / `ByteBuf`; temporal and decimal columns as TEXT:
`String` and `ByteBuf` (Date / Time / Timestamp / Duration), `String` (Decimal128) through the codec functions of C14 /
C15 (`dateRepr`, `timeRepr`, `timestampRepr`, `durationRepr`, `decimalRepr`) — the borrowed targets `&str` / `&[u8]`
must fail there, the text is created on the fly. -/

def unsupported {α} : R α := fail "unsupported (target, column) pair"

def castLeaf (t : Target) (a : Arr) (lv : LVal) : Option (R DVal) :=
  match t, a, lv with
  | .bool, .boolean _ _ _, .bool b => some (.ok (.bool b))
  | .int ty, .boolean _ _ _, .bool b => some (.ok (.int ty (if b then 1 else 0)))
  | .bool, .prim ty _ _, .int x =>
    if isIntPrim ty then (if x == 0 then some (.ok (.bool false)) else if x == 1 then some (.ok (.bool true)) else some (fail "not a bool"))
    else some unsupported
  | .int ty, .prim pty _ _, .int x =>
    if isIntPrim pty || ((pty == .date32 || pty == .date64) && (ty == .i32 || ty == .i64)) then
      (if ty.inRange x then some (.ok (.int ty x)) else some (fail "out of range"))
    else some unsupported
  | .char, .prim ty _ _, .int x =>
    if isIntPrim ty then
      (if IntTy.u32.inRange x && isScalarValue x.toNat then some (.ok (.char x.toNat)) else some (fail "not a char"))
    else some unsupported
  | .f32, .prim .float32 _ _, .float x => some (.ok (.f32 x))
  | .f32, .prim .float16 _ _, .float x => some (.ok (.f32 (f16ToF32 x)))
  | .f32, .prim .float64 _ _, .float x => some (.ok (.f32 (f64ToF32 x)))
  | .f64, .prim .float64 _ _, .float x => some (.ok (.f64 x))
  | .f64, .prim .float32 _ _, .float x => some (.ok (.f64 (f32ToF64 x)))
  | .f64, .prim .float16 _ _, .float x => some (.ok (.f64 (f32ToF64 (f16ToF32 x))))
  | .int ty, .time tty _ _ _, .int x =>
    if (tty == .duration && ty == .i64) || (tty != .duration && (ty == .i32 || ty == .i64)) then
      (if ty.inRange x then some (.ok (.int ty x)) else some (fail "out of range"))
    else some unsupported
  | .int .i64, .timestamp _ _ _ _, .int x =>
    (if IntTy.i64.inRange x then some (.ok (.int .i64 x)) else some (fail "out of range"))
  -- temporal / decimal columns as text
  | .string, .prim .date32 _ _, .int x => some ((dateRepr .date32 x).map (.str .owned))
  | .string, .prim .date64 _ _, .int x => some ((dateRepr .date64 x).map (.str .owned))
  | .byteBuf, .prim .date32 _ _, .int x => some ((dateRepr .date32 x).map (.bytes .owned))
  | .byteBuf, .prim .date64 _ _, .int x => some ((dateRepr .date64 x).map (.bytes .owned))
  | .string, .time tty u _ _, .int x =>
    if tty == .duration then some (.ok (.str .owned (durationRepr u x))) else some ((timeRepr u x).map (.str .owned))
  | .byteBuf, .time tty u _ _, .int x =>
    if tty == .duration then some (.ok (.bytes .owned (durationRepr u x))) else some ((timeRepr u x).map (.bytes .owned))
  | .string, .timestamp u tz _ _, .int x => some ((timestampRepr u tz x).map (.str .owned))
  | .byteBuf, .timestamp u tz _ _, .int x => some ((timestampRepr u tz x).map (.bytes .owned))
  | .string, .decimal128 _ s _ _, .int x => some (.ok (.str .owned (decimalRepr s x)))
  -- strings and binary
  | .string, _, .str b => some (.ok (.str .owned b))
  | .str, _, .str b => some (.ok (.str .borrowed b))
  | .byteBuf, .dictionary _ _, .str _ => some unsupported
  | .byteBuf, _, .str b => some (.ok (.bytes .owned b))
  | .bytes, _, .bin b => some (.ok (.bytes .borrowed b))
  | .byteBuf, _, .bin b => some (.ok (.bytes .owned b))
  | _, _, _ => some unsupported

end SaModel.Read
