import SaModel.Roundtrip.Types
import SaModel.Trace.Mapping
import SaModel.Read.Cast
import SaModel.Read.Access
/-
C04: the three descriptions of a Rust type, related.

* `Roundtrip.Ty`  (Roundtrip/Types.lean)  what `#[derive(Serialize)]` / `#[derive(Deserialize)]` see, with `ser`, `lv`, `norm`;
* `Trace.Ty`      (Trace/FromType.lean)   what `from_type` explores;
* `Read.Target`   (Read/DVal.lean)        what the reader is driven by.

`toTraceTy` / `toTarget` translate the first into the other two (structurally, constructor by constructor: the
three grammars describe the same derives).  `viewOpts` projects the tracer's option record onto the options that
change physical types; `dvalOf` renders a typed value the way a typed read hands it to the visitor (`DVal`: struct ⇒
entries in declaration order keyed by field name, tuple ⇒ seq, enum ⇒ variant name + payload, `String` / byte buffer
owned); `rootArr` is the struct view `Deserializer::from_marrow(fields, views)` reads records from.
-/
namespace SaModel.Roundtrip
open SaModel

/-- the options of the tracer that change physical types -/
def viewOpts (o : Trace.Options) : TraceOpts :=
  { sequenceAsLargeList := o.sequence_as_large_list, stringsAsLargeUtf8 := o.string_as_large_utf8,
    stringDictionaryEncoding := o.string_dictionary_encoding, enumsWithoutDataAsStrings := o.enums_without_data_as_strings,
    allowNullFields := o.allow_null_fields, mapAsStruct := o.map_as_struct }

/-- the tracer options with exactly these type-changing options (default budget, no overwrites) -/
def toOptions (o : TraceOpts) : Trace.Options :=
  { sequence_as_large_list := o.sequenceAsLargeList, string_as_large_utf8 := o.stringsAsLargeUtf8,
    string_dictionary_encoding := o.stringDictionaryEncoding, enums_without_data_as_strings := o.enumsWithoutDataAsStrings,
    allow_null_fields := o.allowNullFields, map_as_struct := o.mapAsStruct }

theorem viewOpts_toOptions (o : TraceOpts) : viewOpts (toOptions o) = o := rfl

/-! ### the type the tracer explores -/

def primTraceTy : Prim → Trace.Ty
  | .bool => .bool
  | .int t => .int t
  | .f32 => .f32
  | .f64 => .f64
  | .char => .char
  | .str | .strRef | .cowStr => .string
  | .bytes | .bytesRef | .bytesSeq => .bytes      -- `deserialize_bytes` is what the tracer sees, whatever the Serialize side does

mutual
def toTraceTy : Ty → Trace.Ty
  | .prim p => primTraceTy p
  | .unit => .unit
  | .option t => .option (toTraceTy t)
  | .vec t => .vec (toTraceTy t)
  | .tuple ts => .tuple (toTraceTys ts)
  | .struct n fs => .struct n (toTraceFields fs)
  | .tupleStruct n ts => .tupleStruct n (toTraceTys ts)
  | .newtype n t => .newtypeStruct n (toTraceTy t)
  | .unitStruct n => .unitStruct n
  | .enum n vs => .enum n (toTraceVariants vs)
  | .map k v => .map (toTraceTy k) (toTraceTy v)
def toTraceTys : Tys → Trace.Tys
  | .nil => .nil
  | .cons t r => .cons (toTraceTy t) (toTraceTys r)
def toTraceFields : TFields → Trace.TyFields
  | .nil => .nil
  | .cons n _ t r => .cons n (toTraceTy t) (toTraceFields r)
def toTraceVariants : Variants → Trace.TyVariants
  | .nil => .nil
  | .cons n .unit r => .unit n (toTraceVariants r)
  | .cons n (.newtype t) r => .newtype n (toTraceTy t) (toTraceVariants r)
  | .cons n (.tuple ts) r => .tuple n (toTraceTys ts) (toTraceVariants r)
  | .cons n (.struct fs) r => .struct n (toTraceFields fs) (toTraceVariants r)
end

/-! ### the target the reader is driven by -/

def primTarget : Prim → Read.Target
  | .bool => .bool
  | .int t => .int t
  | .f32 => .f32
  | .f64 => .f64
  | .char => .char
  | .str => .string          -- `String`
  | .bytes => .byteBuf       -- an owned byte buffer (`serde_bytes::ByteBuf`, `#[serde(with = "serde_bytes")] Vec<u8>`)
  | .strRef => .str          -- `&'de str`: `deserialize_str`, the visitor takes `visit_borrowed_str` only
  | .cowStr => .str          -- `#[serde(borrow)] Cow<'de, str>`: `deserialize_str`; driven with the more demanding `&'de str` visitor
  | .bytesRef => .bytes      -- `&'de [u8]`: `deserialize_bytes`, the visitor takes `visit_borrowed_bytes` (/ `_str`) only
  | .bytesSeq => .bytes

mutual
def toTarget : Ty → Read.Target
  | .prim p => primTarget p
  | .unit => .unit
  | .unitStruct _ => .unitStruct
  | .option t => .option (toTarget t)
  | .vec t => .seq (toTarget t)
  | .tuple ts => .tuple (toTargets ts)
  | .tupleStruct _ ts => .tupleStruct (toTargets ts)
  | .struct _ fs => .struct (toTargetFields fs)
  | .newtype _ t => .newtype (toTarget t)
  | .enum _ vs => .enum false (toTargetVariants vs)
  | .map k v => .map (toTarget k) (toTarget v)
def toTargets : Tys → Read.Targets
  | .nil => .nil
  | .cons t r => .cons (toTarget t) (toTargets r)
def toTargetFields : TFields → Read.TFields
  | .nil => .nil
  | .cons n _ t r => .cons n (toTarget t) (toTargetFields r)
def toTargetVariants : Variants → Read.TVariants
  | .nil => .nil
  | .cons n .unit r => .cons n .unit (toTargetVariants r)
  | .cons n (.newtype t) r => .cons n (.newtype (toTarget t)) (toTargetVariants r)
  | .cons n (.tuple ts) r => .cons n (.tuple (toTargets ts)) (toTargetVariants r)
  | .cons n (.struct fs) r => .cons n (.struct (toTargetFields fs)) (toTargetVariants r)
end

/-! ### a typed value as a typed read presents it -/

def nameKey (n : String) : Read.DVal := .str .transient (Read.strBytes n)

mutual
def dvalOf : Ty → Val → Read.DVal
  | .prim .bool, .bool b => .bool b
  | .prim (.int t), .int v => .int t v
  | .prim .f32, .f32 b => .f32 b
  | .prim .f64, .f64 b => .f64 b
  | .prim .char, .char c => .char c
  | .prim .str, .str s => .str .owned (Read.strBytes s)
  | .prim .bytes, .bytes b => .bytes .owned b
  | .prim .strRef, .str s => .str .borrowed (Read.strBytes s)
  | .prim .cowStr, .str s => .str .borrowed (Read.strBytes s)
  | .prim .bytesRef, .bytes b => .bytes .borrowed b
  | .prim .bytesSeq, .bytes b => .bytes .borrowed b
  | .unit, .unit => .unit
  | .unitStruct _, .unit => .unit
  | .option _, .none => .none
  | .option t, .some v => .some (dvalOf t v)
  | .vec t, .vec vs => .seq (dvalAll t vs)
  | .tuple ts, .tuple vs => .seq (dvalPos ts vs)
  | .tupleStruct _ ts, .tuple vs => .seq (dvalPos ts vs)
  | .struct _ fs, .struct vs => .map (dvalFields fs vs)
  | .newtype _ t, .newtype v => dvalOf t v
  | .enum _ vars, .variant i payload =>
    match vars.get? i with
    | some (vn, .unit) => .enum (nameKey vn) .unit
    | some (vn, .newtype t) => dvalSingle vn t payload
    | some (vn, .tuple ts) => .enum (nameKey vn) (.seq (dvalPos ts payload))
    | some (vn, .struct fs) => .enum (nameKey vn) (.map (dvalFields fs payload))
    | none => .ignored
  | .map k v, .map es => .map (dvalEntries k v es)
  | _, _ => .ignored       -- not a value of the type
def dvalSingle (vn : String) (t : Ty) : Vals → Read.DVal
  | .cons v .nil => .enum (nameKey vn) (dvalOf t v)
  | _ => .ignored
def dvalAll (t : Ty) : Vals → Read.DVals
  | .nil => .nil
  | .cons v rest => .cons (dvalOf t v) (dvalAll t rest)
def dvalPos : Tys → Vals → Read.DVals
  | .cons t ts, .cons v rest => .cons (dvalOf t v) (dvalPos ts rest)
  | _, _ => .nil
def dvalFields : TFields → Vals → Read.DEntries
  | .cons n _ t fs, .cons v rest => .cons (nameKey n) (dvalOf t v) (dvalFields fs rest)
  | _, _ => .nil
def dvalEntries (k v : Ty) : VEntries → Read.DEntries
  | .nil => .nil
  | .cons a b rest => .cons (dvalOf k a) (dvalOf v b) (dvalEntries k v rest)
end

/-! ### `from_marrow(fields, views)` and reading one record -/

/-- the columns of the root reader: each view under its field's name / nullability / metadata -/
def zipCols : List Field → List Arr → ArrFields
  | f :: fs, a :: as => .cons (metaOfField f) a (zipCols fs as)
  | _, _ => .nil

/-- the root reader `Deserializer::new` builds once its checks returned the record count `len`:
`StructDeserializer::new("$", columns, None, len)` -/
def rootArr (fields : List Field) (arrs : List Arr) (len : Nat) : Arr := .struct len none (zipCols fields arrs)

/-- `Deserializer::from_marrow(fields, views)` followed by reading record `i` into the target `t`
(`deserializer.get(i)` / the `i`-th item of the iterator, then `T::deserialize`):
count and length checks (`Access.new`), one `ArrayDeserializer::new` per column (`Read.new`), the typed read at `i` -/
def readRecord (t : Read.Target) (fields : List Field) (arrs : List Arr) (i : Nat) : R Read.DVal := do
  let len ← Access.new true fields.length (arrs.map Read.vlen)
  let root := rootArr fields arrs len
  Read.new Read.Fixes.all root
  match Access.getIdx len i with
  | none => fail "no such record"
  | some idx => Read.readAs Read.Fixes.all t root idx

/-- `Deserializer::from_marrow(fields, views)` followed by the BULK read `Vec<T>::deserialize(deserializer)`: the same
checks, then every index the bulk `SeqAccess` hands out (`Access.bulk len`, C13), each read into the target `t` -/
def readAll (t : Read.Target) (fields : List Field) (arrs : List Arr) : R (List Read.DVal) := do
  let len ← Access.new true fields.length (arrs.map Read.vlen)
  let root := rootArr fields arrs len
  Read.new Read.Fixes.all root
  (Access.bulk len).mapM fun idx => Read.readAs Read.Fixes.all t root idx

end SaModel.Roundtrip
