import SaModel.Data.Schema
import SaModel.Data.SVal
/-
C04, the documented preconditions and exclusions as definitions (used by the `roundtrip` driver on every case and
by the theorems of `Props/C04.lean`):

* `TraceOpts`     the tracing options that change physical types (tracing_options.rs; defaults as in the crate);
* `traceRefused`  when `from_type` is documented to refuse a type: maps under `map_as_struct` (the field names
                  cannot be known from the type), positions of Arrow type Null without `allow_null_fields`, enums
                  without data unless `enums_without_data_as_strings` or `allow_null_fields`;
* `noneAtUnion`   a `None` (or a missing field) at a position the schema gives a Union type: the documented
                  unsupported case `Option<enum → Union>` = `None`.  Decided on (schema, serde value) alone.
-/
namespace SaModel.Roundtrip
open SaModel

structure TraceOpts where
  sequenceAsLargeList : Bool := true
  stringsAsLargeUtf8 : Bool := true
  stringDictionaryEncoding : Bool := false
  enumsWithoutDataAsStrings : Bool := false
  allowNullFields : Bool := false
  mapAsStruct : Bool := true
deriving Repr, BEq, DecidableEq, Inhabited

/-- `some reason` iff `from_type` is documented to refuse a type with these features under these options -/
def traceRefused (o : TraceOpts) (hasMap hasNull hasDataless : Bool) : Option String :=
  if hasMap && o.mapAsStruct then some "map-as-struct"
  else if hasNull && !o.allowNullFields then some "null-field"
  else if hasDataless && !o.enumsWithoutDataAsStrings && !o.allowNullFields then some "enum-without-data"
  else none

def isUnion : DataType → Bool
  | .union _ _ => true
  | _ => false

def Fields.dtOf : Fields → String → Option DataType
  | .nil, _ => none
  | .cons (.mk n dt _ _) rest, key => if n == key then some dt else Fields.dtOf rest key

def UFields.dtAt : UFields → Nat → Option DataType
  | .nil, _ => none
  | .cons _ (.mk _ dt _ _) _, 0 => some dt
  | .cons _ _ rest, k + 1 => UFields.dtAt rest k

def SFields.hasKey : SFields → String → Bool
  | .nil, _ => false
  | .cons k _ _ rest, key => k == key || SFields.hasKey rest key

/-- a union-typed field of the schema that the record does not mention (the struct builder then pushes a null) -/
def missingUnion : Fields → SFields → Bool
  | .nil, _ => false
  | .cons (.mk n dt _ _) rest, given => (isUnion dt && !SFields.hasKey given n) || missingUnion rest given

mutual
def noneAtUnion (dt : DataType) : SVal → Bool
  | .some v => noneAtUnion dt v
  | .newtypeStruct _ v => noneAtUnion dt v
  | .none | .unit => isUnion dt
  | .seq xs | .tuple xs | .tupleStruct _ xs =>
    match dt with
    | .list (.mk _ c _ _) | .largeList (.mk _ c _ _) | .fixedSizeList (.mk _ c _ _) _ => noneAtUnionAll c xs
    | .struct fs => noneAtUnionPos fs xs
    | _ => false
  | .record _ fields =>
    match dt with
    | .struct fs => missingUnion fs fields || noneAtUnionNamed fs fields
    | _ => false
  | .map es =>
    match dt with
    | .map (.mk _ (.struct (.cons (.mk _ kdt _ _) (.cons (.mk _ vdt _ _) _))) _ _) _ => noneAtUnionEntries kdt vdt es
    | _ => false
  | .newtypeVariant _ i _ v =>
    match dt with
    | .union fs _ => match UFields.dtAt fs i with
      | some c => noneAtUnion c v
      | none => false
    | _ => false
  | .tupleVariant _ i _ xs =>
    match dt with
    | .union fs _ => match UFields.dtAt fs i with
      | some (.struct cfs) => noneAtUnionPos cfs xs
      | some (.list (.mk _ c _ _)) | some (.largeList (.mk _ c _ _)) | some (.fixedSizeList (.mk _ c _ _) _) => noneAtUnionAll c xs
      | _ => false
    | _ => false
  | .structVariant _ i _ fields =>
    match dt with
    | .union fs _ => match UFields.dtAt fs i with
      | some (.struct cfs) => missingUnion cfs fields || noneAtUnionNamed cfs fields
      | _ => false
    | _ => false
  | _ => false

def noneAtUnionAll (c : DataType) : SVals → Bool
  | .nil => false
  | .cons x rest => noneAtUnion c x || noneAtUnionAll c rest

def noneAtUnionPos : Fields → SVals → Bool
  | .cons (.mk _ c _ _) frest, .cons x rest => noneAtUnion c x || noneAtUnionPos frest rest
  | _, _ => false

def noneAtUnionNamed (fs : Fields) : SFields → Bool
  | .nil => false
  | .cons key _ x rest =>
    (match Fields.dtOf fs key with
     | some c => noneAtUnion c x
     | none => false) || noneAtUnionNamed fs rest

def noneAtUnionEntries (kdt vdt : DataType) : SEntries → Bool
  | .nil => false
  | .cons k v rest => noneAtUnion kdt k || noneAtUnion vdt v || noneAtUnionEntries kdt vdt rest
end

/-- a whole record against the root schema -/
def noneAtUnionRow (fields : List Field) (row : SVal) : Bool :=
  noneAtUnion (.struct (Fields.ofList fields)) row

end SaModel.Roundtrip
