import SaModel.Data.Schema
import SaModel.Data.SVal
/-
C04, the documented preconditions and exclusions as definitions (used by the `roundtrip` driver on every case and
by the theorems of `Props/C04.lean`):

* `TraceOpts`     the tracing options that change physical types (tracing_options.rs; defaults as in the crate);
* `traceRefused`  when `from_type` is documented to refuse a type: maps under `map_as_struct` (the field names
                  cannot be known from the type), positions of Arrow type Null without `allow_null_fields`, enums
                  without data unless `enums_without_data_as_strings` or `allow_null_fields`;
* `noneAtUnion`   a `None` (or a missing field) at a position the schema gives a Union type: the documented
                  unsupported case `Option<enum → Union>` = `None`.  Decided on (schema, serde value) alone.
-/
namespace SaModel.Roundtrip
open SaModel

structure TraceOpts where
  sequenceAsLargeList : Bool := true
  stringsAsLargeUtf8 : Bool := true
  stringDictionaryEncoding : Bool := false
  enumsWithoutDataAsStrings : Bool := false
  allowNullFields : Bool := false
  mapAsStruct : Bool := true
deriving Repr, BEq, DecidableEq, Inhabited

/-- `some reason` iff `from_type` is documented to refuse a type with these features under these options -/
def traceRefused (o : TraceOpts) (hasMap hasNull hasDataless : Bool) : Option String :=
  if hasMap && o.mapAsStruct then some "map-as-struct"
  else if hasNull && !o.allowNullFields then some "null-field"
  else if hasDataless && !o.enumsWithoutDataAsStrings && !o.allowNullFields then some "enum-without-data"
  else none

/-! ### a traced schema respects the options (each option decides exactly its aspect) -/

def strTy (o : TraceOpts) : DataType := if o.stringsAsLargeUtf8 then .largeUtf8 else .utf8

mutual
/-- `none` when every node of the data type is one the options allow, else the name of the violated option -/
def violatedOption (o : TraceOpts) : DataType → Option String
  | .list (.mk _ c _ _) => if o.sequenceAsLargeList then some "sequence_as_large_list" else violatedOption o c
  | .largeList (.mk _ c _ _) => if !o.sequenceAsLargeList then some "sequence_as_large_list" else violatedOption o c
  | .utf8 => if o.stringsAsLargeUtf8 then some "strings_as_large_utf8"
             else if o.stringDictionaryEncoding then some "string_dictionary_encoding" else none
  | .largeUtf8 => if !o.stringsAsLargeUtf8 then some "strings_as_large_utf8"
                  else if o.stringDictionaryEncoding then some "string_dictionary_encoding" else none
  | .dictionary k v =>
    if !(o.stringDictionaryEncoding || o.enumsWithoutDataAsStrings) then some "string_dictionary_encoding"
    else if k != .uint32 then some "dictionary-key"
    else if v != strTy o then some "strings_as_large_utf8" else none
  | .null => if o.allowNullFields then none else some "allow_null_fields"
  | .map (.mk _ c _ _) _ => if o.mapAsStruct then some "map_as_struct" else violatedOption o c
  | .struct fs => violatedOptionFields o fs
  | .union fs _ => violatedOptionUFields o fs
  | .fixedSizeList (.mk _ c _ _) _ => violatedOption o c
  | _ => none

def violatedOptionFields (o : TraceOpts) : Fields → Option String
  | .nil => none
  | .cons (.mk _ c _ _) rest =>
    match violatedOption o c with
    | some w => some w
    | none => violatedOptionFields o rest

def violatedOptionUFields (o : TraceOpts) : UFields → Option String
  | .nil => none
  | .cons _ (.mk _ c _ _) rest =>
    match violatedOption o c with
    | some w => some w
    | none => violatedOptionUFields o rest
end

def violatedOptionRoot (o : TraceOpts) (fields : List Field) : Option String :=
  violatedOptionFields o (Fields.ofList fields)

def isUnion : DataType → Bool
  | .union _ _ => true
  | _ => false

def Fields.dtOf : Fields → String → Option DataType
  | .nil, _ => none
  | .cons (.mk n dt _ _) rest, key => if n == key then some dt else Fields.dtOf rest key

def UFields.dtAt : UFields → Nat → Option DataType
  | .nil, _ => none
  | .cons _ (.mk _ dt _ _) _, 0 => some dt
  | .cons _ _ rest, k + 1 => UFields.dtAt rest k

def SFields.hasKey : SFields → String → Bool
  | .nil, _ => false
  | .cons k _ _ rest, key => k == key || SFields.hasKey rest key

/-- a union-typed field of the schema that the record does not mention (the struct builder then pushes a null) -/
def missingUnion : Fields → SFields → Bool
  | .nil, _ => false
  | .cons (.mk n dt _ _) rest, given => (isUnion dt && !SFields.hasKey given n) || missingUnion rest given

mutual
def noneAtUnion (dt : DataType) : SVal → Bool
  | .some v => noneAtUnion dt v
  | .newtypeStruct _ v => noneAtUnion dt v
  | .none | .unit => isUnion dt
  | .seq xs | .tuple xs | .tupleStruct _ xs =>
    match dt with
    | .list (.mk _ c _ _) | .largeList (.mk _ c _ _) | .fixedSizeList (.mk _ c _ _) _ => noneAtUnionAll c xs
    | .struct fs => noneAtUnionPos fs xs
    | _ => false
  | .record _ fields =>
    match dt with
    | .struct fs => missingUnion fs fields || noneAtUnionNamed fs fields
    | _ => false
  | .map es =>
    match dt with
    | .map (.mk _ (.struct (.cons (.mk _ kdt _ _) (.cons (.mk _ vdt _ _) _))) _ _) _ => noneAtUnionEntries kdt vdt es
    | _ => false
  | .newtypeVariant _ i _ v =>
    match dt with
    | .union fs _ => match UFields.dtAt fs i with
      | some c => noneAtUnion c v
      | none => false
    | _ => false
  | .tupleVariant _ i _ xs =>
    match dt with
    | .union fs _ => match UFields.dtAt fs i with
      | some (.struct cfs) => noneAtUnionPos cfs xs
      | some (.list (.mk _ c _ _)) | some (.largeList (.mk _ c _ _)) | some (.fixedSizeList (.mk _ c _ _) _) => noneAtUnionAll c xs
      | _ => false
    | _ => false
  | .structVariant _ i _ fields =>
    match dt with
    | .union fs _ => match UFields.dtAt fs i with
      | some (.struct cfs) => missingUnion cfs fields || noneAtUnionNamed cfs fields
      | _ => false
    | _ => false
  | _ => false

def noneAtUnionAll (c : DataType) : SVals → Bool
  | .nil => false
  | .cons x rest => noneAtUnion c x || noneAtUnionAll c rest

def noneAtUnionPos : Fields → SVals → Bool
  | .cons (.mk _ c _ _) frest, .cons x rest => noneAtUnion c x || noneAtUnionPos frest rest
  | _, _ => false

def noneAtUnionNamed (fs : Fields) : SFields → Bool
  | .nil => false
  | .cons key _ x rest =>
    (match Fields.dtOf fs key with
     | some c => noneAtUnion c x
     | none => false) || noneAtUnionNamed fs rest

def noneAtUnionEntries (kdt vdt : DataType) : SEntries → Bool
  | .nil => false
  | .cons k v rest => noneAtUnion kdt k || noneAtUnion vdt v || noneAtUnionEntries kdt vdt rest
end

/-! ### struct fields are traced in declaration order -/

def Fields.names : Fields → List String
  | .nil => []
  | .cons (.mk n _ _ _) rest => n :: Fields.names rest

def SFields.keys : SFields → List String
  | .nil => []
  | .cons k _ _ rest => k :: SFields.keys rest

/-- `xs` occurs in `ys` in order (fields left out by `skip_serializing_if` may be missing) -/
def isSubseq : List String → List String → Bool
  | [], _ => true
  | _ :: _, [] => false
  | x :: xs, y :: ys => if x == y then isSubseq xs ys else isSubseq (x :: xs) ys

mutual
/-- every record presented with `serialize_struct` lists its fields in the order of the schema's struct -/
def fieldOrderOk (dt : DataType) : SVal → Bool
  | .some v => fieldOrderOk dt v
  | .newtypeStruct _ v => fieldOrderOk dt v
  | .seq xs | .tuple xs | .tupleStruct _ xs =>
    match dt with
    | .list (.mk _ c _ _) | .largeList (.mk _ c _ _) | .fixedSizeList (.mk _ c _ _) _ => fieldOrderOkAll c xs
    | .struct fs => fieldOrderOkPos fs xs
    | _ => true
  | .record _ fields =>
    match dt with
    | .struct fs => isSubseq (SFields.keys fields) (Fields.names fs) && fieldOrderOkNamed fs fields
    | _ => true
  | .map es =>
    match dt with
    | .map (.mk _ (.struct (.cons (.mk _ kdt _ _) (.cons (.mk _ vdt _ _) _))) _ _) _ => fieldOrderOkEntries kdt vdt es
    | _ => true
  | .newtypeVariant _ i _ v =>
    match dt with
    | .union fs _ => match UFields.dtAt fs i with
      | some c => fieldOrderOk c v
      | none => true
    | _ => true
  | .tupleVariant _ i _ xs =>
    match dt with
    | .union fs _ => match UFields.dtAt fs i with
      | some (.struct cfs) => fieldOrderOkPos cfs xs
      | _ => true
    | _ => true
  | .structVariant _ i _ fields =>
    match dt with
    | .union fs _ => match UFields.dtAt fs i with
      | some (.struct cfs) => isSubseq (SFields.keys fields) (Fields.names cfs) && fieldOrderOkNamed cfs fields
      | _ => true
    | _ => true
  | _ => true

def fieldOrderOkAll (c : DataType) : SVals → Bool
  | .nil => true
  | .cons x rest => fieldOrderOk c x && fieldOrderOkAll c rest

def fieldOrderOkPos : Fields → SVals → Bool
  | .cons (.mk _ c _ _) frest, .cons x rest => fieldOrderOk c x && fieldOrderOkPos frest rest
  | _, _ => true

def fieldOrderOkNamed (fs : Fields) : SFields → Bool
  | .nil => true
  | .cons key _ x rest =>
    (match Fields.dtOf fs key with
     | some c => fieldOrderOk c x
     | none => true) && fieldOrderOkNamed fs rest

def fieldOrderOkEntries (kdt vdt : DataType) : SEntries → Bool
  | .nil => true
  | .cons k v rest => fieldOrderOk kdt k && fieldOrderOk vdt v && fieldOrderOkEntries kdt vdt rest
end

def fieldOrderOkRow (fields : List Field) (row : SVal) : Bool :=
  fieldOrderOk (.struct (Fields.ofList fields)) row

/-- a whole record against the root schema -/
def noneAtUnionRow (fields : List Field) (row : SVal) : Bool :=
  noneAtUnion (.struct (Fields.ofList fields)) row

end SaModel.Roundtrip
