import SaModel.Roundtrip.Exclusions
import SaModel.Data.Arr
/-
C04: Rust type definitions and their inhabitants, as far as serde sees them.

* `Ty`        the supported grammar: scalars, `()`, Option, Vec (any sequence), tuples / fixed arrays, structs with
              named fields (names after `rename` / `rename_all`; `skipNone` = `skip_serializing_if = "Option::is_none"`),
              tuple / newtype / unit structs, enums with unit / newtype / tuple / struct variants, maps.
              `#[serde(transparent)]` is the inner type itself; `default` changes nothing on this path (serde_arrow
              presents every field).
* `Val`       inhabitants (untyped; `wt ty v` says that `v` is a value of `ty`).
* `ser`       what `#[derive(Serialize)]` does (validated against real derives by harness/src/recorder.rs on every run).
* `mapping`   the documented Rust → Arrow mapping (`to_field` of the tracer after `from_type`), for every option that
              changes physical types.  Where `from_type` refuses (see `traceRefused`) the function still returns the
              field that the permissive options would give.
* `lv`        the logical value the column must hold for a typed value (type directed, option independent).
* `unser`     reading a logical value back at a type: what `#[derive(Deserialize)]` builds from the reader's events.
* `norm`      the documented normalisation: `Some(v)` reads back as `None` exactly when `v` is stored as a null
              (`Some(None)`, `Some(())`); identity otherwise.
All functions are structurally recursive on the value.
-/
namespace SaModel.Roundtrip
open SaModel

/-- scalar leaves.  `str` / `bytes` are the OWNED leaves (`String`, `serde_bytes::ByteBuf`).  The BORROWED leaves (the target
points into the arrays; values are the same `Val.str` / `Val.bytes`):
* `strRef`   `&'de str` — `serialize_str`; `<&str>::deserialize` = `deserialize_str` with a visitor that takes
             `visit_borrowed_str` only;
* `cowStr`   `#[serde(borrow)] Cow<'de, str>` — `serialize_str`; `deserialize_str` with a visitor that borrows when it is handed
             `visit_borrowed_str` (it would also take a transient / owned string and copy it; the model drives it with the more
             demanding `&'de str` visitor, so a successful read means `Cow::Borrowed`);
* `bytesRef` `#[serde(borrow, with = "serde_bytes")] &'de [u8]` — `serialize_bytes`; `deserialize_bytes`, borrowed only;
* `bytesSeq` `&'de [u8]` with the std impls — ASYMMETRIC: `Serialize for [u8]` issues a SEQUENCE of `u8`
             (`serialize_seq` + one `serialize_u8` per byte), `Deserialize for &[u8]` asks `deserialize_bytes` (so `from_type`
             traces LargeBinary) and takes `visit_borrowed_bytes` only. -/
inductive Prim where
  | bool | int (t : IntTy) | f32 | f64 | char | str | bytes
  | strRef | cowStr | bytesRef | bytesSeq
deriving Repr, BEq, DecidableEq

mutual
inductive Ty where
  | prim (p : Prim)
  | unit
  | option (t : Ty)
  | vec (t : Ty)
  | tuple (ts : Tys)
  | struct (name : String) (fs : TFields)
  | tupleStruct (name : String) (ts : Tys)
  | newtype (name : String) (t : Ty)
  | unitStruct (name : String)
  | enum (name : String) (vs : Variants)
  | map (k : Ty) (v : Ty)
deriving Repr, BEq, DecidableEq
inductive Tys where
  | nil
  | cons (t : Ty) (rest : Tys)
deriving Repr, BEq, DecidableEq
inductive TFields where
  | nil
  | cons (name : String) (skipNone : Bool) (t : Ty) (rest : TFields)
deriving Repr, BEq, DecidableEq
inductive Variant where
  | unit
  | newtype (t : Ty)
  | tuple (ts : Tys)
  | struct (fs : TFields)
deriving Repr, BEq, DecidableEq
inductive Variants where
  | nil
  | cons (name : String) (v : Variant) (rest : Variants)
deriving Repr, BEq, DecidableEq
end

mutual
inductive Val where
  | bool (b : Bool)
  | int (v : Int)
  | f32 (bits : Nat)
  | f64 (bits : Nat)
  | char (c : Nat)
  | str (s : String)
  | bytes (b : List UInt8)
  | unit
  | none
  | some (v : Val)
  | vec (vs : Vals)
  | tuple (vs : Vals)              -- tuples, arrays, tuple structs
  | struct (vs : Vals)             -- field values in declaration order
  | newtype (v : Val)
  | variant (idx : Nat) (payload : Vals)   -- unit: [], newtype: [v], tuple / struct: the fields in order
  | map (es : VEntries)
deriving Repr, BEq, DecidableEq
inductive Vals where
  | nil
  | cons (v : Val) (rest : Vals)
deriving Repr, BEq, DecidableEq
inductive VEntries where
  | nil
  | cons (k : Val) (v : Val) (rest : VEntries)
deriving Repr, BEq, DecidableEq
end

instance : Inhabited Ty := ⟨.unit⟩
instance : Inhabited Val := ⟨.unit⟩

def Tys.length : Tys → Nat
  | .nil => 0
  | .cons _ r => r.length + 1

def Vals.length : Vals → Nat
  | .nil => 0
  | .cons _ r => r.length + 1

def Vals.isNil : Vals → Bool
  | .nil => true
  | _ => false

/-- the payload of a newtype variant -/
def Vals.single? : Vals → Option Val
  | .cons v .nil => some v
  | _ => none

def Variants.get? : Variants → Nat → Option (String × Variant)
  | .nil, _ => none
  | .cons n v _, 0 => some (n, v)
  | .cons _ _ r, k + 1 => r.get? k

def Variants.length : Variants → Nat
  | .nil => 0
  | .cons _ _ r => r.length + 1

def TFields.names : TFields → List String
  | .nil => []
  | .cons n _ _ r => n :: r.names

/-- the name `ensure_tuple` gives the `i`-th position -/
def posName (i : Nat) : String := toString i

def posNames (start : Nat) : Nat → List String
  | 0 => []
  | n + 1 => posName start :: posNames (start + 1) n

/-! ### `#[derive(Serialize)]` -/

/-- `impl Serialize for [u8]` (no serde_bytes): `serialize_seq`, one `serialize_u8` per byte -/
def u8Seq : List UInt8 → SVals
  | [] => .nil
  | b :: r => .cons (.int .u8 b.toNat) (u8Seq r)

mutual
def ser : Ty → Val → SVal
  | .prim .bool, .bool b => .bool b
  | .prim (.int t), .int v => .int t v
  | .prim .f32, .f32 b => .f32 b
  | .prim .f64, .f64 b => .f64 b
  | .prim .char, .char c => .char c
  | .prim .str, .str s => .str s
  | .prim .bytes, .bytes b => .bytes b
  | .prim .strRef, .str s => .str s
  | .prim .cowStr, .str s => .str s
  | .prim .bytesRef, .bytes b => .bytes b
  | .prim .bytesSeq, .bytes b => .seq (u8Seq b)
  | .unit, .unit => .unit
  | .unitStruct n, .unit => .unitStruct n
  | .option _, .none => .none
  | .option t, .some v => .some (ser t v)
  | .vec t, .vec vs => .seq (serAll t vs)
  | .tuple ts, .tuple vs => .tuple (serPos ts vs)
  | .tupleStruct n ts, .tuple vs => .tupleStruct n (serPos ts vs)
  | .struct n fs, .struct vs => .record n (serFields fs vs)
  | .newtype n t, .newtype v => .newtypeStruct n (ser t v)
  | .enum n vars, .variant i payload =>
    match vars.get? i with
    | some (vn, .unit) => .unitVariant n i vn
    | some (vn, .newtype t) => serSingle n i vn t payload
    | some (vn, .tuple ts) => .tupleVariant n i vn (serPos ts payload)
    | some (vn, .struct fs) => .structVariant n i vn (serFields fs payload)
    | none => .unit
  | .map k v, .map es => .map (serEntries k v es)
  | _, _ => .unit        -- not a value of the type

/-- the payload of a newtype variant is exactly one value -/
def serSingle (n : String) (i : Nat) (vn : String) (t : Ty) : Vals → SVal
  | .cons v .nil => .newtypeVariant n i vn (ser t v)
  | _ => .unit

def serAll (t : Ty) : Vals → SVals
  | .nil => .nil
  | .cons v rest => .cons (ser t v) (serAll t rest)

def serPos : Tys → Vals → SVals
  | .cons t ts, .cons v rest => .cons (ser t v) (serPos ts rest)
  | _, _ => .nil

/-- `skip_serializing_if = "Option::is_none"`: the field is left out when it is `None` -/
def serFields : TFields → Vals → SFields
  | .cons n skip t fs, .cons v rest =>
    if skip = true ∧ v = .none then serFields fs rest
    else .cons n 0 (ser t v) (serFields fs rest)
  | _, _ => .nil

def serEntries (k v : Ty) : VEntries → SEntries
  | .nil => .nil
  | .cons a b rest => .cons (ser k a) (ser v b) (serEntries k v rest)
end

/-! ### the documented mapping -/

def strDT (o : TraceOpts) : DataType := if o.stringsAsLargeUtf8 then .largeUtf8 else .utf8

def intDT : IntTy → DataType
  | .i8 => .int8 | .i16 => .int16 | .i32 => .int32 | .i64 => .int64
  | .u8 => .uint8 | .u16 => .uint16 | .u32 => .uint32 | .u64 => .uint64

def primDT (o : TraceOpts) : Prim → DataType
  | .bool => .boolean
  | .int t => intDT t
  | .f32 => .float32
  | .f64 => .float64
  | .char => .uint32
  | .str | .strRef | .cowStr => if o.stringDictionaryEncoding then .dictionary .uint32 (strDT o) else strDT o
  | .bytes | .bytesRef | .bytesSeq => .largeBinary

def TUPLE_MD : Metadata := [(STRATEGY_KEY, "TupleAsStruct")]

def Variants.allUnit : Variants → Bool
  | .nil => true
  | .cons _ .unit r => r.allUnit
  | .cons _ _ _ => false

/-- a type that carries no data: traced as Null (`()`, unit structs, Option / newtype wrappers of those) -/
def isNullTy : Ty → Bool
  | .unit | .unitStruct _ => true
  | .option t | .newtype _ t => isNullTy t
  | _ => false

/-- an enum "without data" as the tracer sees it (`UnionTracer::is_without_data`): every variant is a unit variant or
a newtype variant around a data-less type (its tracer is a Null primitive).  Model repair: the mapping used `allUnit`
(unit variants only), but `enum E { A, B(()) }` is traced to a Dictionary under `enums_without_data_as_strings` too. -/
def Variants.withoutData : Variants → Bool
  | .nil => true
  | .cons _ .unit r => r.withoutData
  | .cons _ (.newtype t) r => isNullTy t && r.withoutData
  | .cons _ _ _ => false

mutual
/-- data type, nullability and metadata of the field a type is traced to -/
def mappingDT (o : TraceOpts) : Ty → DataType × Bool × Metadata
  | .prim p => (primDT o p, false, [])
  | .unit => (.null, true, [])
  | .unitStruct _ => (.null, true, [])
  | .option t =>
    let (dt, _, md) := mappingDT o t
    (dt, true, md)
  | .vec t =>
    let (dt, nb, md) := mappingDT o t
    let item := Field.mk "element" dt nb md
    (if o.sequenceAsLargeList then .largeList item else .list item, false, [])
  | .tuple ts => (.struct (mappingPos o 0 ts), false, TUPLE_MD)
  | .tupleStruct _ ts => (.struct (mappingPos o 0 ts), false, TUPLE_MD)
  | .struct _ fs => (.struct (mappingFields o fs), false, [])
  | .newtype _ t => mappingDT o t
  | .enum _ vars =>
    if vars.withoutData && o.enumsWithoutDataAsStrings then (.dictionary .uint32 (strDT o), false, [])
    else (.union (mappingVariants o 0 vars) .dense, false, [])
  | .map k v =>
    let (kdt, knb, kmd) := mappingDT o k
    let (vdt, vnb, vmd) := mappingDT o v
    (.map (.mk "entries" (.struct (.cons (.mk "key" kdt knb kmd) (.cons (.mk "value" vdt vnb vmd) .nil))) false []) false, false, [])

def mappingPos (o : TraceOpts) : Nat → Tys → Fields
  | _, .nil => .nil
  | i, .cons t ts =>
    let (dt, nb, md) := mappingDT o t
    .cons (.mk (posName i) dt nb md) (mappingPos o (i + 1) ts)

def mappingFields (o : TraceOpts) : TFields → Fields
  | .nil => .nil
  | .cons n _ t fs =>
    let (dt, nb, md) := mappingDT o t
    .cons (.mk n dt nb md) (mappingFields o fs)

def mappingVariants (o : TraceOpts) : Nat → Variants → UFields
  | _, .nil => .nil
  | i, .cons vn v rest =>
    let f : Field :=
      match v with
      | .unit => .mk vn .null true []
      | .newtype t =>
        let (dt, nb, md) := mappingDT o t
        .mk vn dt nb md
      | .tuple ts => .mk vn (.struct (mappingPos o 0 ts)) false TUPLE_MD
      | .struct fs => .mk vn (.struct (mappingFields o fs)) false []
    .cons (i : Int) f (mappingVariants o (i + 1) rest)
end

def mapping (o : TraceOpts) (name : String) (t : Ty) : Field :=
  let (dt, nb, md) := mappingDT o t
  .mk name dt nb md

/-- the schema `from_type` returns for a root type: the children of the root struct -/
def mappingRoot (o : TraceOpts) (t : Ty) : Option (List Field) :=
  match mappingDT o t with
  | (.struct fs, false, _) => some fs.toList
  | _ => none

/-! ### logical values (type directed) -/

mutual
def lv : Ty → Val → LVal
  | .prim .bool, .bool b => .bool b
  | .prim (.int _), .int v => .int v
  | .prim .f32, .f32 b => .float b
  | .prim .f64, .f64 b => .float b
  | .prim .char, .char c => .int c
  | .prim .str, .str s => .str s.toUTF8.toList
  | .prim .bytes, .bytes b => .bin b
  | .prim .strRef, .str s => .str s.toUTF8.toList
  | .prim .cowStr, .str s => .str s.toUTF8.toList
  | .prim .bytesRef, .bytes b => .bin b
  | .prim .bytesSeq, .bytes b => .bin b
  | .option t, .some v => lv t v
  | .vec t, .vec vs => .list (lvAll t vs)
  | .tuple ts, .tuple vs => .struct (lvPos 0 ts vs)
  | .tupleStruct _ ts, .tuple vs => .struct (lvPos 0 ts vs)
  | .struct _ fs, .struct vs => .struct (lvFields fs vs)
  | .newtype _ t, .newtype v => lv t v
  | .enum _ vars, .variant i payload =>
    match vars.get? i with
    | some (_, .unit) => .union i .null
    | some (_, .newtype t) => lvSingle i t payload
    | some (_, .tuple ts) => .union i (.struct (lvPos 0 ts payload))
    | some (_, .struct fs) => .union i (.struct (lvFields fs payload))
    | none => .null
  | .map k v, .map es => .map (lvEntries k v es)
  | _, _ => .null          -- `()`, unit structs, `None`

def lvSingle (i : Nat) (t : Ty) : Vals → LVal
  | .cons v .nil => .union i (lv t v)
  | _ => .null

def lvAll (t : Ty) : Vals → LVals
  | .nil => .nil
  | .cons v rest => .cons (lv t v) (lvAll t rest)

def lvPos : Nat → Tys → Vals → LFields
  | i, .cons t ts, .cons v rest => .cons (posName i) (lv t v) (lvPos (i + 1) ts rest)
  | _, _, _ => .nil

def lvFields : TFields → Vals → LFields
  | .cons n _ t fs, .cons v rest => .cons n (lv t v) (lvFields fs rest)
  | _, _ => .nil

def lvEntries (k v : Ty) : VEntries → LEntries
  | .nil => .nil
  | .cons a b rest => .cons (lv k a) (lv v b) (lvEntries k v rest)
end

/-! ### logical values, option dependent (`enums_without_data_as_strings`) -/

mutual
/-- the logical value the column holds for a typed value under the tracing options `o`: as `lv`, except that an enum
without data is stored as a STRING column (Dictionary(UInt32, string type)) under `enums_without_data_as_strings`, where
the logical value of a variant is its NAME.  Additive: `lv` (the Union form) stays beside it; `lvO o = lv` wherever no such
enum occurs. -/
def lvO (o : TraceOpts) : Ty → Val → LVal
  | .prim .bool, .bool b => .bool b
  | .prim (.int _), .int v => .int v
  | .prim .f32, .f32 b => .float b
  | .prim .f64, .f64 b => .float b
  | .prim .char, .char c => .int c
  | .prim .str, .str s => .str s.toUTF8.toList
  | .prim .bytes, .bytes b => .bin b
  | .prim .strRef, .str s => .str s.toUTF8.toList
  | .prim .cowStr, .str s => .str s.toUTF8.toList
  | .prim .bytesRef, .bytes b => .bin b
  | .prim .bytesSeq, .bytes b => .bin b
  | .option t, .some v => lvO o t v
  | .vec t, .vec vs => .list (lvOAll o t vs)
  | .tuple ts, .tuple vs => .struct (lvOPos o 0 ts vs)
  | .tupleStruct _ ts, .tuple vs => .struct (lvOPos o 0 ts vs)
  | .struct _ fs, .struct vs => .struct (lvOFields o fs vs)
  | .newtype _ t, .newtype v => lvO o t v
  | .enum _ vars, .variant i payload =>
    if vars.withoutData && o.enumsWithoutDataAsStrings then
      match vars.get? i with
      | some (vn, _) => .str vn.toUTF8.toList
      | none => .null
    else
      match vars.get? i with
      | some (_, .unit) => .union i .null
      | some (_, .newtype t) => lvOSingle o i t payload
      | some (_, .tuple ts) => .union i (.struct (lvOPos o 0 ts payload))
      | some (_, .struct fs) => .union i (.struct (lvOFields o fs payload))
      | none => .null
  | .map k v, .map es => .map (lvOEntries o k v es)
  | _, _ => .null          -- `()`, unit structs, `None`

def lvOSingle (o : TraceOpts) (i : Nat) (t : Ty) : Vals → LVal
  | .cons v .nil => .union i (lvO o t v)
  | _ => .null

def lvOAll (o : TraceOpts) (t : Ty) : Vals → LVals
  | .nil => .nil
  | .cons v rest => .cons (lvO o t v) (lvOAll o t rest)

def lvOPos (o : TraceOpts) : Nat → Tys → Vals → LFields
  | i, .cons t ts, .cons v rest => .cons (posName i) (lvO o t v) (lvOPos o (i + 1) ts rest)
  | _, _, _ => .nil

def lvOFields (o : TraceOpts) : TFields → Vals → LFields
  | .cons n _ t fs, .cons v rest => .cons n (lvO o t v) (lvOFields o fs rest)
  | _, _ => .nil

def lvOEntries (o : TraceOpts) (k v : Ty) : VEntries → LEntries
  | .nil => .nil
  | .cons a b rest => .cons (lvO o k a) (lvO o v b) (lvOEntries o k v rest)
end

/-! ### well-typed values -/

def Prim.wt : Prim → Val → Bool
  | .bool, .bool _ => true
  | .int t, .int v => t.inRange v
  | .f32, .f32 b => b < 4294967296                 -- a bit pattern of 32 bits
  | .f64, .f64 b => b < 18446744073709551616       -- a bit pattern of 64 bits
  | .char, .char c => c < 0xD800 || (0xE000 ≤ c && c ≤ 0x10FFFF)   -- a Unicode scalar value (no surrogates)
  | .str, .str _ => true
  | .bytes, .bytes _ => true
  | .strRef, .str _ => true
  | .cowStr, .str _ => true
  | .bytesRef, .bytes _ => true
  | .bytesSeq, .bytes _ => true
  | _, _ => false

mutual
def wt : Ty → Val → Bool
  | .prim p, v => p.wt v
  | .unit, .unit => true
  | .unitStruct _, .unit => true
  | .option _, .none => true
  | .option t, .some v => wt t v
  | .vec t, .vec vs => wtAll t vs
  | .tuple ts, .tuple vs => wtPos ts vs
  | .tupleStruct _ ts, .tuple vs => wtPos ts vs
  | .struct _ fs, .struct vs => wtFields fs vs
  | .newtype _ t, .newtype v => wt t v
  | .enum _ vars, .variant i payload =>
    match vars.get? i with
    | some (_, .unit) => payload.isNil
    | some (_, .newtype t) => wtSingle t payload
    | some (_, .tuple ts) => wtPos ts payload
    | some (_, .struct fs) => wtFields fs payload
    | none => false
  | .map k v, .map es => wtEntries k v es
  | _, _ => false

def wtSingle (t : Ty) : Vals → Bool
  | .cons v .nil => wt t v
  | _ => false

def wtAll (t : Ty) : Vals → Bool
  | .nil => true
  | .cons v rest => wt t v && wtAll t rest

def wtPos : Tys → Vals → Bool
  | .nil, .nil => true
  | .cons t ts, .cons v rest => wt t v && wtPos ts rest
  | _, _ => false

def wtFields : TFields → Vals → Bool
  | .nil, .nil => true
  | .cons _ _ t fs, .cons v rest => wt t v && wtFields fs rest
  | _, _ => false

def wtEntries (k v : Ty) : VEntries → Bool
  | .nil => true
  | .cons a b rest => wt k a && wt v b && wtEntries k v rest
end

/-! ### the documented normalisation -/

mutual
def norm : Ty → Val → Val
  | .option t, .some v => if lv t v = .null then .none else .some (norm t v)
  | .vec t, .vec vs => .vec (normAll t vs)
  | .tuple ts, .tuple vs => .tuple (normPos ts vs)
  | .tupleStruct _ ts, .tuple vs => .tuple (normPos ts vs)
  | .struct _ fs, .struct vs => .struct (normFields fs vs)
  | .newtype _ t, .newtype v => .newtype (norm t v)
  | .enum _ vars, .variant i payload =>
    match vars.get? i with
    | some (_, .newtype t) => .variant i (normSingle t payload)
    | some (_, .tuple ts) => .variant i (normPos ts payload)
    | some (_, .struct fs) => .variant i (normFields fs payload)
    | _ => .variant i payload
  | .map k v, .map es => .map (normEntries k v es)
  | _, v => v

def normSingle (t : Ty) : Vals → Vals
  | .cons v .nil => .cons (norm t v) .nil
  | vs => vs

def normAll (t : Ty) : Vals → Vals
  | .nil => .nil
  | .cons v rest => .cons (norm t v) (normAll t rest)

def normPos : Tys → Vals → Vals
  | .cons t ts, .cons v rest => .cons (norm t v) (normPos ts rest)
  | _, vs => vs

def normFields : TFields → Vals → Vals
  | .cons _ _ t fs, .cons v rest => .cons (norm t v) (normFields fs rest)
  | _, vs => vs

def normEntries (k v : Ty) : VEntries → VEntries
  | .nil => .nil
  | .cons a b rest => .cons (norm k a) (norm v b) (normEntries k v rest)
end

/-! ### reading back (`#[derive(Deserialize)]` over the reader's events) -/

def unserStr (b : List UInt8) : Option String := String.fromUTF8? b.toByteArray

/-- Option / newtype wrappers do not consume a constructor of the logical value: peel them off the type first.
`Option`: a null reads as `None` (so `Some(None)` cannot come back), anything else as `Some`. -/
def peel (x : LVal) (k : Ty → Option Val) : Ty → Option Val
  | .option t => if x = .null then some .none else (peel x k t).map .some
  | .newtype _ t => (peel x k t).map .newtype
  | core => k core

mutual
/-- reading at a type that is not an Option / newtype wrapper -/
def unserCore : Ty → LVal → Option Val
  | .unit, .null => some .unit
  | .unitStruct _, .null => some .unit
  | .prim .bool, .bool b => some (.bool b)
  | .prim (.int _), .int v => some (.int v)
  | .prim .char, .int c => some (.char c.toNat)
  | .prim .f32, .float b => some (.f32 b.toNat)
  | .prim .f64, .float b => some (.f64 b.toNat)
  | .prim .str, .str b => (unserStr b).map .str
  | .prim .bytes, .bin b => some (.bytes b)
  | .prim .strRef, .str b => (unserStr b).map .str
  | .prim .cowStr, .str b => (unserStr b).map .str
  | .prim .bytesRef, .bin b => some (.bytes b)
  | .prim .bytesSeq, .bin b => some (.bytes b)
  | .vec t, .list items => (unserAll t items).map .vec
  | .tuple ts, .struct fields => (unserPos ts fields).map .tuple
  | .tupleStruct _ ts, .struct fields => (unserPos ts fields).map .tuple
  | .struct _ fs, .struct fields => (unserFields fs fields).map .struct
  | .enum _ vars, .union tid x =>
    if tid < 0 then none else
    match vars.get? tid.toNat with
    | some (_, .unit) => some (.variant tid.toNat .nil)
    | some (_, .newtype t) => (peel x (fun core => unserCore core x) t).map fun v => .variant tid.toNat (.cons v .nil)
    | some (_, .tuple ts) => (unserPosOf ts x).map (.variant tid.toNat)
    | some (_, .struct fs) => (unserFieldsOf fs x).map (.variant tid.toNat)
    | none => none
  | .map k v, .map es => (unserEntries k v es).map .map
  | _, _ => none

def unserPosOf (ts : Tys) : LVal → Option Vals
  | .struct fields => unserPos ts fields
  | _ => none

def unserFieldsOf (fs : TFields) : LVal → Option Vals
  | .struct fields => unserFields fs fields
  | _ => none

def unserAll (t : Ty) : LVals → Option Vals
  | .nil => some .nil
  | .cons x rest => do
    let v ← peel x (fun core => unserCore core x) t
    let vs ← unserAll t rest
    pure (.cons v vs)

def unserPos : Tys → LFields → Option Vals
  | .nil, .nil => some .nil
  | .cons t ts, .cons _ x rest => do
    let v ← peel x (fun core => unserCore core x) t
    let vs ← unserPos ts rest
    pure (.cons v vs)
  | _, _ => none

def unserFields : TFields → LFields → Option Vals
  | .nil, .nil => some .nil
  | .cons _ _ t fs, .cons _ x rest => do
    let v ← peel x (fun core => unserCore core x) t
    let vs ← unserFields fs rest
    pure (.cons v vs)
  | _, _ => none

def unserEntries (k v : Ty) : LEntries → Option VEntries
  | .nil => some .nil
  | .cons a b rest => do
    let x ← peel a (fun core => unserCore core a) k
    let y ← peel b (fun core => unserCore core b) v
    let r ← unserEntries k v rest
    pure (.cons x y r)
end

/-- reading a logical value back at a type -/
def unser (t : Ty) (x : LVal) : Option Val := peel x (fun core => unserCore core x) t

end SaModel.Roundtrip
