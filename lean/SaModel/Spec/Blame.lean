import SaModel.Spec.Interp
import SaModel.Read.Cast
import SaModel.Read.Label
/-
Which field may an error name?  `blame … x` lists the schema positions (as `$`-rooted paths) at which the
documented mapping is undefined for `x` *for a reason of that position's own*: the deepest positions where
`interp` fails, plus container positions whose own structural condition fails (duplicate or missing required
field, wrong element count, undeclared variant, non-string key).  C18 demands that the `field` annotation of a
serialization error is one of these — never a sibling, never merely an ancestor of a deeper failure.

Path conventions (as the crate assembles them): root `$`; struct child `{path}.{name}` (raw name); list / map /
union children through `ChildName` (empty name ⇒ `<empty>`: `segName`); dictionary `.key` / `.value`.

Independence: this file imports no `Build/*` module.  The string form of a scalar is `Spec.textOf`, the string a map key
stands for `Spec.keyOf` (Spec/Leaf.lean), the path segment of a child `segName` (below); the bridges to the builder model's
`scalarToString`, `keyStr`, `childName` are in `Lemmas/C01LeafBridge.lean` and `Lemmas/C18SpecBridge.lean`.  (`Ext`, the
functions of other crates both sides are parameterised by, lives in `Data/Ext.lean` under the namespace `SaModel.Build`.)

Dictionary columns (reading corrected 2026-09-29).  C18 names `dictionary` among the kinds of PARENT of the innermost
failing field: the key and the value child of a dictionary column are positions of the schema (`{path}.key` with the key
type, `{path}.value` with the value type), and while the dictionary builder hands a string to its value builder (or an
index to its key builder) that child IS the innermost field being processed.  So
* a string the VALUE type cannot take (a date / time / timestamp / duration / decimal value type that cannot parse it, a
  value type that takes no strings at all) is blamed on `{path}.value` — for a nested dictionary on ITS value child, and
  so on (`blameDictStr`);
* what the dictionary builder's own code refuses is blamed on the dictionary `{path}`: a null for a non-nullable
  dictionary field (repo fix ca6f255), a call the dictionary builder does not answer (bytes, sequences, records, maps,
  variants with data);
* capacity is no matter of this specification (the mapping is defined): the crate reports more distinct values than the
  key type holds under `{path}.key` with the key type (`Dictionary(Int8, Utf8)`, the 129th distinct string:
  `field: "$.d.key"`, `data_type: "Int8"` — the key child is the innermost field being processed then) and a capacity
  error of the value builder under `{path}.value`; `Props.C18.C18_capacity_blame` states both for the model.
-/
namespace SaModel.Spec
open SaModel SaModel.Build

/-- the segment a child contributes to a path where the crate goes through `ChildName` (list / map / union children, every
reader child): an empty name is shown as `<empty>`.  A definition of the specification (independent of the builder
model's `Build.childName` and the reader model's `Read.rchildName`; bridge `segName_eq`, Lemmas/C18SpecBridge.lean). -/
def segName (s : String) : String := if s.isEmpty then "<empty>" else s

def dupKeys : List String → Bool
  | [] => false
  | k :: ks => ks.contains k || dupKeys ks

/-- own structural failure of a struct position given the names presented to it -/
def structOwnFails (fs : List Field) (keys : List String) : Bool :=
  dupKeys (keys.filter fun k => fs.any (·.name == k)) ||
  fs.any (fun f => !f.nullable && !keys.contains f.name)

def positionalKeys (fs : List Field) (n : Nat) : List String := (fs.take n).map (·.name)

/-- an absent *nullable* field whose column cannot take a null (union, unknown-variant placeholder):
the column itself refuses `serialize_none` -/
def blameMissing (path : String) (fs : List Field) (keys : List String) : List String :=
  fs.filterMap fun f =>
    if f.nullable && !keys.contains f.name && !(interpNull f.dataType f.nullable f.metadata).isOk
    then some (path ++ "." ++ f.name) else none

/-- the position that takes the strings of a dictionary column whose value child sits at `path` (type `vdt`): that
child, or for a nested dictionary the value child below it -/
def blameDictStr (path : String) : DataType → String
  | .dictionary _ v => blameDictStr (path ++ ".value") v
  | _ => path

/-- a scalar call (`serialize_bool` … `serialize_str`, `serialize_unit_variant` outside unions, `None` / unit) the
column at `path` cannot represent: the column itself — except that a dictionary column hands every scalar with a string
form on to its value child, which is then the innermost field being processed -/
def blameScalarAt (ext : Ext) (path : String) (dt : DataType) (x : SVal) : List String :=
  match dt with
  | .dictionary _ v =>
    match textOf ext x with
    | some _ => [blameDictStr (path ++ ".value") v]
    | none => [path]
  | _ => [path]

mutual
def blameDT (ext : Ext) (path : String) (dt : DataType) (nullable : Bool) (md : Metadata) : SVal → List String
  | .some v => blameDT ext path dt nullable md v
  | .newtypeStruct _ v => blameDT ext path dt nullable md v
  | .seq xs =>
    if (interpDT ext dt nullable md (.seq xs)).isOk then [] else
    match dt with
    | .list (.mk cn cdt cnl cmd) | .largeList (.mk cn cdt cnl cmd) =>
      let inner := blameAll ext (path ++ "." ++ segName cn) cdt cnl cmd xs
      if inner.isEmpty then [path] else inner
    | .fixedSizeList (.mk cn cdt cnl cmd) n =>
      let inner := blameAll ext (path ++ "." ++ segName cn) cdt cnl cmd xs
      let own := (xs.length : Int) != n
      (if own || inner.isEmpty then [path] else []) ++ inner
    | _ => [path]
  | .tuple xs | .tupleStruct _ xs =>
    if (interpDT ext dt nullable md (.tuple xs)).isOk then [] else
    match dt with
    | .list (.mk cn cdt cnl cmd) | .largeList (.mk cn cdt cnl cmd) =>
      let inner := blameAll ext (path ++ "." ++ segName cn) cdt cnl cmd xs
      if inner.isEmpty then [path] else inner
    | .fixedSizeList (.mk cn cdt cnl cmd) n =>
      let inner := blameAll ext (path ++ "." ++ segName cn) cdt cnl cmd xs
      let own := (xs.length : Int) != n
      (if own || inner.isEmpty then [path] else []) ++ inner
    | .struct fs =>
      let keys := positionalKeys fs.toList xs.length
      let inner := blameNth ext path fs.toList xs
      let missingChild := blameMissing path fs.toList keys
      let own := structOwnFails fs.toList keys
      (if own || (inner.isEmpty && missingChild.isEmpty) then [path] else []) ++ inner ++ missingChild
    | _ => [path]
  | .record _ fields =>
    if (interpDT ext dt nullable md (.record "" fields)).isOk then [] else
    match dt with
    | .struct fs =>
      let keys := fieldKeys fields
      let inner := blameFields ext path fs.toList fields
      let missingChild := blameMissing path fs.toList keys
      let own := structOwnFails fs.toList keys
      (if own || (inner.isEmpty && missingChild.isEmpty) then [path] else []) ++ inner ++ missingChild
    | _ => [path]
  | .map es =>
    if (interpDT ext dt nullable md (.map es)).isOk then [] else
    match dt with
    | .struct fs =>
      let keys := entryKeys es
      let inner := blameEntriesStruct ext path fs.toList es
      let missingChild := blameMissing path fs.toList keys
      let own := structOwnFails fs.toList keys || !(keysAreStrings es).isOk
      (if own || (inner.isEmpty && missingChild.isEmpty) then [path] else []) ++ inner ++ missingChild
    | .map (.mk en (.struct (.cons (.mk kn kdt knl kmd) (.cons (.mk vn vdt vnl vmd) _))) _ _) _ =>
      let base := path ++ "." ++ segName en
      let inner := blameEntriesMap ext (base ++ "." ++ segName kn) kdt knl kmd (base ++ "." ++ segName vn) vdt vnl vmd es
      if inner.isEmpty then [path] else inner
    | _ => [path]
  | .mapRaw ops =>
    -- a key/value call stream: well-formed (alternating) streams mean the same as `.map`; malformed ones have
    -- no meaning (C16 only)
    if !isAlternating ops then [] else
    if (interpDT ext dt nullable md (.mapRaw ops)).isOk then [] else
    match dt with
    | .struct fs =>
      let keys := opsKeys ops
      let inner := blameOpsStruct ext path fs.toList ops
      let missingChild := blameMissing path fs.toList keys
      let own := structOwnFails fs.toList keys || !(opsKeysAreStrings ops).isOk
      (if own || (inner.isEmpty && missingChild.isEmpty) then [path] else []) ++ inner ++ missingChild
    | .map (.mk en (.struct (.cons (.mk kn kdt knl kmd) (.cons (.mk vn vdt vnl vmd) _))) _ _) _ =>
      let base := path ++ "." ++ segName en
      let inner := blameOpsMap ext (base ++ "." ++ segName kn) kdt knl kmd (base ++ "." ++ segName vn) vdt vnl vmd ops
      if inner.isEmpty then [path] else inner
    | _ => [path]
  | .newtypeVariant n i vn v =>
    if (interpDT ext dt nullable md (.newtypeVariant n i vn v)).isOk then [] else
    match dt with
    | .union fs _ =>
      match fs.toList[i]? with
      | some (_, .mk cn cdt cnl cmd) =>
        let inner := blameDT ext (path ++ "." ++ segName cn) cdt cnl cmd v
        if inner.isEmpty then [path] else inner
      | none => [path]
    | _ => [path]
  | .tupleVariant n i vn xs =>
    if (interpDT ext dt nullable md (.tupleVariant n i vn xs)).isOk then [] else
    match dt with
    | .union fs _ =>
      match fs.toList[i]? with
      | some (_, .mk cn (.struct cfs) _ _) =>
        let p := path ++ "." ++ segName cn
        let keys := positionalKeys cfs.toList xs.length
        let inner := blameNth ext p cfs.toList xs
        let missingChild := blameMissing p cfs.toList keys
        let own := structOwnFails cfs.toList keys
        (if own || (inner.isEmpty && missingChild.isEmpty) then [p] else []) ++ inner ++ missingChild
      -- a variant whose column is a list: the payload is a tuple presented to that column (`interpDT` reads it so);
      -- the blame is the blame of the tuple AT the variant's column — inside the elements when one of them fails,
      -- never the column (an ancestor) for an element's failure
      | some (_, .mk cn (.list (.mk en edt enl emd)) _ _) | some (_, .mk cn (.largeList (.mk en edt enl emd)) _ _) =>
        let p := path ++ "." ++ segName cn
        let inner := blameAll ext (p ++ "." ++ segName en) edt enl emd xs
        if inner.isEmpty then [p] else inner
      | some (_, .mk cn (.fixedSizeList (.mk en edt enl emd) k) _ _) =>
        let p := path ++ "." ++ segName cn
        let inner := blameAll ext (p ++ "." ++ segName en) edt enl emd xs
        let own := (xs.length : Int) != k
        (if own || inner.isEmpty then [p] else []) ++ inner
      | some (_, .mk cn _ _ _) => [path ++ "." ++ segName cn, path]
      | none => [path]
    | _ => [path]
  | .structVariant n i vn fields =>
    if (interpDT ext dt nullable md (.structVariant n i vn fields)).isOk then [] else
    match dt with
    | .union fs _ =>
      match fs.toList[i]? with
      | some (_, .mk cn (.struct cfs) _ _) =>
        let p := path ++ "." ++ segName cn
        let keys := fieldKeys fields
        let inner := blameFields ext p cfs.toList fields
        let missingChild := blameMissing p cfs.toList keys
        let own := structOwnFails cfs.toList keys
        (if own || (inner.isEmpty && missingChild.isEmpty) then [p] else []) ++ inner ++ missingChild
      | some (_, .mk cn _ _ _) => [path ++ "." ++ segName cn, path]
      | none => [path]
    | _ => [path]
  | .unitVariant n i vn =>
    if (interpDT ext dt nullable md (.unitVariant n i vn)).isOk then [] else
    match dt with
    | .union fs _ =>
      match fs.toList[i]? with
      | some (_, .mk cn _ _ _) => [path ++ "." ++ segName cn]      -- the variant's column refuses `unit`
      | none => [path]
    | _ => blameScalarAt ext path dt (.unitVariant n i vn)    -- string columns take the variant's name
  | .bytes b =>
    if (interpDT ext dt nullable md (.bytes b)).isOk then [] else
    match dt with
    -- `ListBuilder::serialize_bytes`: every byte is an element, presented as `serialize_u8`
    | .list (.mk cn cdt _ _) | .largeList (.mk cn cdt _ _) =>
      blameScalarAt ext (path ++ "." ++ segName cn) cdt (.int .u8 0) ++ [path]
    | _ => [path]
  | x => if (interpDT ext dt nullable md x).isOk then [] else blameScalarAt ext path dt x

def blameAll (ext : Ext) (path : String) (dt : DataType) (nullable : Bool) (md : Metadata) : SVals → List String
  | .nil => []
  | .cons x rest => blameDT ext path dt nullable md x ++ blameAll ext path dt nullable md rest

/-- positional record: element k against field k -/
def blameNth (ext : Ext) (path : String) : List Field → SVals → List String
  | [], _ => []
  | _, .nil => []
  | (.mk n dt nl md) :: fs, .cons x rest => blameDT ext (path ++ "." ++ n) dt nl md x ++ blameNth ext path fs rest

def blameFields (ext : Ext) (path : String) (fs : List Field) : SFields → List String
  | .nil => []
  | .cons key _ x rest =>
    (match fs.find? (·.name == key) with
      | some (.mk n dt nl md) => blameDT ext (path ++ "." ++ n) dt nl md x
      | none => []) ++ blameFields ext path fs rest

def blameEntriesStruct (ext : Ext) (path : String) (fs : List Field) : SEntries → List String
  | .nil => []
  | .cons k x rest =>
    (match (keyOf k).bind (fun key => fs.find? (·.name == key)) with
      | some (.mk n dt nl md) => blameDT ext (path ++ "." ++ n) dt nl md x
      | none => []) ++ blameEntriesStruct ext path fs rest

def blameEntriesMap (ext : Ext) (kp : String) (kdt : DataType) (knl : Bool) (kmd : Metadata)
    (vp : String) (vdt : DataType) (vnl : Bool) (vmd : Metadata) : SEntries → List String
  | .nil => []
  | .cons k x rest =>
    blameDT ext kp kdt knl kmd k ++ blameDT ext vp vdt vnl vmd x ++ blameEntriesMap ext kp kdt knl kmd vp vdt vnl vmd rest

def blameOpsStruct (ext : Ext) (path : String) (fs : List Field) : SMapOps → List String
  | .key k (.value x rest) =>
    (match (keyOf k).bind (fun key => fs.find? (·.name == key)) with
      | some (.mk n dt nl md) => blameDT ext (path ++ "." ++ n) dt nl md x
      | none => []) ++ blameOpsStruct ext path fs rest
  | _ => []

def blameOpsMap (ext : Ext) (kp : String) (kdt : DataType) (knl : Bool) (kmd : Metadata)
    (vp : String) (vdt : DataType) (vnl : Bool) (vmd : Metadata) : SMapOps → List String
  | .key k (.value x rest) =>
    blameDT ext kp kdt knl kmd k ++ blameDT ext vp vdt vnl vmd x ++ blameOpsMap ext kp kdt knl kmd vp vdt vnl vmd rest
  | _ => []

def opsKeys : SMapOps → List String
  | .key k (.value _ rest) => (match keyOf k with | some s => [s] | none => []) ++ opsKeys rest
  | _ => []

def fieldKeys : SFields → List String
  | .nil => []
  | .cons key _ _ rest => key :: fieldKeys rest

def entryKeys : SEntries → List String
  | .nil => []
  | .cons k _ rest => (match keyOf k with | some s => [s] | none => []) ++ entryKeys rest
end

/-- positions an error about row `x` may name -/
def blameRow (ext : Ext) (fields : List Field) (x : SVal) : List String :=
  blameDT ext "$" (.struct (Fields.ofList fields)) false [] x

/-! ## reader side: which position of the VIEW may an error of a typed read name?

`blameRead t a lv` lists the positions of the view `a` (child names from its root, with the `data_type` label of the
reader family there) at which reading the slot with logical value `lv` into the Rust type `t` has no demanded value
FOR A REASON OF THAT POSITION'S OWN.  It is written from `Read.cast` (the value-level meaning of a typed read), not
from the readers: records by field NAME, tuples by position, list elements, map entries, the selected union variant,
`Option` layers by null-ness.

* a position is blamed where `cast` does not demand a value (`mustFail`: out of range, not a char, null into a
  non-`Option` target, a (target, column) pair the readers do not offer, …; `cast` is without a claim only where field
  names repeat, `Props.C02.cast_na_only`) and no part of the value is to blame;
* a container position is blamed for its own structural reasons: a tuple longer than the struct, a non-`Option` target
  field without a column field of its name (or repeated names: by-name reading has no meaning), a key type a field name
  cannot be read into, a variant the enum does not have, a union slot without a variant;
* otherwise the blame lies with the parts: never with an ancestor of a deeper failure, never with a sibling.

Where `cast` demands a value (`must d`) nothing is blamed (`Props.C02.read_typed_decode`: the read succeeds).
Path conventions of the readers: every child through `ChildName` (struct fields included); map children below the
entries name; dictionaries have no child readers. -/

section ReadBlame
open SaModel.Read

/-- a position of a view: child names from the view's root, and the label of the reader there -/
abbrev RPos := List String × String

/-- the view's own position -/
def here (a : Arr) : List RPos := [([], Read.label a)]

/-- positions of a child, seen from the parent -/
def below (seg : List String) (l : List RPos) : List RPos := l.map fun q => (seg ++ q.1, q.2)

def Claim.isMust : Claim → Bool
  | .ok (some _) => true
  | _ => false

/-- scalar targets (and every pair without parts): blamed iff `cast` does not demand a value -/
def blameScalar (t : Target) (a : Arr) (lv : LVal) : List RPos :=
  if Claim.isMust (castScalar t a lv) then [] else here a

def blameVals (f : LVal → List RPos) : LVals → List RPos
  | .nil => []
  | .cons v r => f v ++ blameVals f r

def blameEntriesR (fk fv : LVal → List RPos) : LEntries → List RPos
  | .nil => []
  | .cons k v r => fk k ++ fv v ++ blameEntriesR fk fv r

/-- every field of the struct as a map entry: the value through `f`, below the field's name -/
def blameStructAsMap (f : Arr → LVal → List RPos) : ArrFields → LFields → List RPos
  | .cons fm a rest, .cons _ lv lrest => below [segName fm.name] (f a lv) ++ blameStructAsMap f rest lrest
  | _, _ => []

/-- the column fields called `n`, each through `f` -/
def blameNamed (f : Arr → LVal → List RPos) (n : String) : ArrFields → LFields → List RPos
  | .cons fm a rest, .cons _ lv lrest =>
    (if fm.name == n then below [segName fm.name] (f a lv) else []) ++ blameNamed f n rest lrest
  | _, _ => []

/-- a non-`Option` target field without a column field of its name -/
def requiredMissing : TFields → List String → Bool
  | .nil, _ => false
  | .cons n t rest, names => (!t.isOption && !names.contains n) || requiredMissing rest names

/-- tuple-like targets: only a struct column answers; its own reason: fewer fields than elements -/
def blameTupleAt (n : Nat) (f : ArrFields → LFields → List RPos) (a : Arr) (lv : LVal) : List RPos :=
  match a, lv with
  | .struct _ _ fs, .struct lfs => (if n > fs.length then here a else []) ++ f fs lfs
  | a, _ => here a

/-- struct targets by field name: only a struct column answers; its own reasons: a required field is missing, or
names repeat on either side (`cast` makes no claim then) -/
def blameStructAt (tfs : TFields) (f : ArrFields → LFields → List RPos) (a : Arr) (lv : LVal) : List RPos :=
  match a, lv with
  | .struct _ _ fs, .struct lfs =>
    (if !nodupNames (ArrFields.names fs) || !nodupNames (TFields.names tfs) || requiredMissing tfs (ArrFields.names fs)
     then here a else []) ++ f fs lfs
  | a, _ => here a

mutual
def blameRead : Target → Arr → LVal → List RPos
  | .any, _, _ => []
  | .ignored, _, _ => []
  | .option t, a, lv =>
    match lv with
    | .null => []
    | lv => blameRead t a lv
  | .newtype t, a, lv => blameRead t a lv
  | .seq t, a, lv =>
    match a, lv with
    | .list _ _ _ fm el, .list items => below [segName fm.name] (blameVals (fun v => blameRead t el v) items)
    | .fixedSizeList _ _ _ fm el, .list items => below [segName fm.name] (blameVals (fun v => blameRead t el v) items)
    | a, lv => if Claim.isMust (cast (.seq t) a lv) then [] else here a
  | .tuple ts, a, lv => blameTupleAt ts.length (fun fs lfs => blameTuple ts fs lfs) a lv
  | .tupleStruct ts, a, lv => blameTupleAt ts.length (fun fs lfs => blameTuple ts fs lfs) a lv
  | .map k v, a, lv =>
    match a, lv with
    | .struct _ _ fs, .struct lfs =>
      (match k with
       | .string | .any => []
       | _ => here a) ++ blameStructAsMap (fun c w => blameRead v c w) fs lfs
    | .map _ _ mm ks vs, .map es =>
      blameEntriesR (fun w => below [segName mm.entriesName, segName mm.keys.name] (blameRead k ks w))
        (fun w => below [segName mm.entriesName, segName mm.values.name] (blameRead v vs w)) es
    | a, _ => here a
  | .struct tfs, a, lv => blameStructAt tfs (fun fs lfs => blameFieldsR tfs fs lfs) a lv
  | .enum byIndex vs, a, lv =>
    match a, lv with
    | .union _ _ fs, .union t v =>
      (match ArrUFields.findId fs t with
       | none => here a
       | some (fm, child) =>
         blameVariant vs (if byIndex then some t.toNat else none) fm.name (here a) (segName fm.name) child v)
    | a, lv => if Claim.isMust (cast (.enum byIndex vs) a lv) then [] else here a
  | .unit, a, lv => blameScalar .unit a lv
  | .unitStruct, a, lv => blameScalar .unitStruct a lv
  | .bool, a, lv => blameScalar .bool a lv
  | .int ty, a, lv => blameScalar (.int ty) a lv
  | .f32, a, lv => blameScalar .f32 a lv
  | .f64, a, lv => blameScalar .f64 a lv
  | .char, a, lv => blameScalar .char a lv
  | .string, a, lv => blameScalar .string a lv
  | .str, a, lv => blameScalar .str a lv
  | .bytes, a, lv => blameScalar .bytes a lv
  | .byteBuf, a, lv =>
    match a, lv with
    | .list _ _ _ fm el, .list items =>     -- `ByteBuf` from a list column: every element as `u8`
      below [segName fm.name] (blameVals (fun v => blameScalar (.int .u8) el v) items)
    | a, lv => blameScalar .byteBuf a lv
/-- element `k` from field `k` -/
def blameTuple : Targets → ArrFields → LFields → List RPos
  | .cons t rest, .cons fm a frest, .cons _ v lrest =>
    below [segName fm.name] (blameRead t a v) ++ blameTuple rest frest lrest
  | _, _, _ => []
/-- every target field from the column fields of its name -/
def blameFieldsR : TFields → ArrFields → LFields → List RPos
  | .nil, _, _ => []
  | .cons n t rest, fs, lfs => blameNamed (fun a v => blameRead t a v) n fs lfs ++ blameFieldsR rest fs lfs
/-- the variant of the enum selected by name / index (`unknown`: what is blamed when the enum has none) -/
def blameVariant : TVariants → Option Nat → String → List RPos → String → Arr → LVal → List RPos
  | .nil, _, _, unknown, _, _, _ => unknown
  | .cons n k rest, sel, name, unknown, seg, child, v =>
    if (match sel with | some i => i == 0 | none => n == name) then below [seg] (blameKind k child v)
    else blameVariant rest (sel.map (· - 1)) name unknown seg child v
/-- the payload of the variant, read from the variant's column -/
def blameKind : VKind → Arr → LVal → List RPos
  | .unit, child, v => if isNullArr child && LVal.isNull v then [] else here child
  | .newtype t, child, v => blameRead t child v
  | .tuple ts, child, v => blameTupleAt ts.length (fun fs lfs => blameTuple ts fs lfs) child v
  | .struct tfs, child, v => blameStructAt tfs (fun fs lfs => blameFieldsR tfs fs lfs) child v
end

end ReadBlame

end SaModel.Spec
