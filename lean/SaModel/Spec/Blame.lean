import SaModel.Spec.Interp
/-
Which field may an error name?  `blame … x` lists the schema positions (as `$`-rooted paths) at which the
documented mapping is undefined for `x` *for a reason of that position's own*: the deepest positions where
`interp` fails, plus container positions whose own structural condition fails (duplicate or missing required
field, wrong element count, undeclared variant, non-string key).  C18 demands that the `field` annotation of a
serialization error is one of these — never a sibling, never merely an ancestor of a deeper failure.

Path conventions (as the crate assembles them): root `$`; struct child `{path}.{name}` (raw name); list / map /
union children through `ChildName` (empty name ⇒ `<empty>`); dictionary `.key` / `.value`.
-/
namespace SaModel.Spec
open SaModel SaModel.Build

def dupKeys : List String → Bool
  | [] => false
  | k :: ks => ks.contains k || dupKeys ks

/-- own structural failure of a struct position given the names presented to it -/
def structOwnFails (fs : List Field) (keys : List String) : Bool :=
  dupKeys (keys.filter fun k => fs.any (·.name == k)) ||
  fs.any (fun f => !f.nullable && !keys.contains f.name)

def positionalKeys (fs : List Field) (n : Nat) : List String := (fs.take n).map (·.name)

/-- an absent *nullable* field whose column cannot take a null (union, unknown-variant placeholder):
the column itself refuses `serialize_none` -/
def blameMissing (path : String) (fs : List Field) (keys : List String) : List String :=
  fs.filterMap fun f =>
    if f.nullable && !keys.contains f.name && !(interpNull f.dataType f.nullable f.metadata).isOk
    then some (path ++ "." ++ f.name) else none

mutual
def blameDT (ext : Ext) (path : String) (dt : DataType) (nullable : Bool) (md : Metadata) : SVal → List String
  | .some v => blameDT ext path dt nullable md v
  | .newtypeStruct _ v => blameDT ext path dt nullable md v
  | .seq xs =>
    if (interpDT ext dt nullable md (.seq xs)).isOk then [] else
    match dt with
    | .list (.mk cn cdt cnl cmd) | .largeList (.mk cn cdt cnl cmd) =>
      let inner := blameAll ext (path ++ "." ++ childName cn) cdt cnl cmd xs
      if inner.isEmpty then [path] else inner
    | .fixedSizeList (.mk cn cdt cnl cmd) n =>
      let inner := blameAll ext (path ++ "." ++ childName cn) cdt cnl cmd xs
      let own := (xs.length : Int) != n
      (if own || inner.isEmpty then [path] else []) ++ inner
    | _ => [path]
  | .tuple xs | .tupleStruct _ xs =>
    if (interpDT ext dt nullable md (.tuple xs)).isOk then [] else
    match dt with
    | .list (.mk cn cdt cnl cmd) | .largeList (.mk cn cdt cnl cmd) =>
      let inner := blameAll ext (path ++ "." ++ childName cn) cdt cnl cmd xs
      if inner.isEmpty then [path] else inner
    | .fixedSizeList (.mk cn cdt cnl cmd) n =>
      let inner := blameAll ext (path ++ "." ++ childName cn) cdt cnl cmd xs
      let own := (xs.length : Int) != n
      (if own || inner.isEmpty then [path] else []) ++ inner
    | .struct fs =>
      let keys := positionalKeys fs.toList xs.length
      let inner := blameNth ext path fs.toList xs
      let missingChild := blameMissing path fs.toList keys
      let own := structOwnFails fs.toList keys
      (if own || (inner.isEmpty && missingChild.isEmpty) then [path] else []) ++ inner ++ missingChild
    | _ => [path]
  | .record _ fields =>
    if (interpDT ext dt nullable md (.record "" fields)).isOk then [] else
    match dt with
    | .struct fs =>
      let keys := fieldKeys fields
      let inner := blameFields ext path fs.toList fields
      let missingChild := blameMissing path fs.toList keys
      let own := structOwnFails fs.toList keys
      (if own || (inner.isEmpty && missingChild.isEmpty) then [path] else []) ++ inner ++ missingChild
    | _ => [path]
  | .map es =>
    if (interpDT ext dt nullable md (.map es)).isOk then [] else
    match dt with
    | .struct fs =>
      let keys := entryKeys es
      let inner := blameEntriesStruct ext path fs.toList es
      let missingChild := blameMissing path fs.toList keys
      let own := structOwnFails fs.toList keys || !(keysAreStrings es).isOk
      (if own || (inner.isEmpty && missingChild.isEmpty) then [path] else []) ++ inner ++ missingChild
    | .map (.mk en (.struct (.cons (.mk kn kdt knl kmd) (.cons (.mk vn vdt vnl vmd) _))) _ _) _ =>
      let base := path ++ "." ++ childName en
      let inner := blameEntriesMap ext (base ++ "." ++ childName kn) kdt knl kmd (base ++ "." ++ childName vn) vdt vnl vmd es
      if inner.isEmpty then [path] else inner
    | _ => [path]
  | .mapRaw ops =>
    -- a key/value call stream: well-formed (alternating) streams mean the same as `.map`; malformed ones have
    -- no meaning (C16 only)
    if !isAlternating ops then [] else
    if (interpDT ext dt nullable md (.mapRaw ops)).isOk then [] else
    match dt with
    | .struct fs =>
      let keys := opsKeys ops
      let inner := blameOpsStruct ext path fs.toList ops
      let missingChild := blameMissing path fs.toList keys
      let own := structOwnFails fs.toList keys || !(opsKeysAreStrings ops).isOk
      (if own || (inner.isEmpty && missingChild.isEmpty) then [path] else []) ++ inner ++ missingChild
    | .map (.mk en (.struct (.cons (.mk kn kdt knl kmd) (.cons (.mk vn vdt vnl vmd) _))) _ _) _ =>
      let base := path ++ "." ++ childName en
      let inner := blameOpsMap ext (base ++ "." ++ childName kn) kdt knl kmd (base ++ "." ++ childName vn) vdt vnl vmd ops
      if inner.isEmpty then [path] else inner
    | _ => [path]
  | .newtypeVariant n i vn v =>
    if (interpDT ext dt nullable md (.newtypeVariant n i vn v)).isOk then [] else
    match dt with
    | .union fs _ =>
      match fs.toList[i]? with
      | some (_, .mk cn cdt cnl cmd) =>
        let inner := blameDT ext (path ++ "." ++ childName cn) cdt cnl cmd v
        if inner.isEmpty then [path] else inner
      | none => [path]
    | _ => [path]
  | .tupleVariant n i vn xs =>
    if (interpDT ext dt nullable md (.tupleVariant n i vn xs)).isOk then [] else
    match dt with
    | .union fs _ =>
      match fs.toList[i]? with
      | some (_, .mk cn (.struct cfs) _ _) =>
        let p := path ++ "." ++ childName cn
        let keys := positionalKeys cfs.toList xs.length
        let inner := blameNth ext p cfs.toList xs
        let missingChild := blameMissing p cfs.toList keys
        let own := structOwnFails cfs.toList keys
        (if own || (inner.isEmpty && missingChild.isEmpty) then [p] else []) ++ inner ++ missingChild
      | some (_, .mk cn _ _ _) => [path ++ "." ++ childName cn, path]
      | none => [path]
    | _ => [path]
  | .structVariant n i vn fields =>
    if (interpDT ext dt nullable md (.structVariant n i vn fields)).isOk then [] else
    match dt with
    | .union fs _ =>
      match fs.toList[i]? with
      | some (_, .mk cn (.struct cfs) _ _) =>
        let p := path ++ "." ++ childName cn
        let keys := fieldKeys fields
        let inner := blameFields ext p cfs.toList fields
        let missingChild := blameMissing p cfs.toList keys
        let own := structOwnFails cfs.toList keys
        (if own || (inner.isEmpty && missingChild.isEmpty) then [p] else []) ++ inner ++ missingChild
      | some (_, .mk cn _ _ _) => [path ++ "." ++ childName cn, path]
      | none => [path]
    | _ => [path]
  | .unitVariant n i vn =>
    if (interpDT ext dt nullable md (.unitVariant n i vn)).isOk then [] else
    match dt with
    | .union fs _ =>
      match fs.toList[i]? with
      | some (_, .mk cn _ _ _) => [path ++ "." ++ childName cn]      -- the variant's column refuses `unit`
      | none => [path]
    | _ => [path]
  | .bytes b =>
    if (interpDT ext dt nullable md (.bytes b)).isOk then [] else
    match dt with
    | .list (.mk cn _ _ _) | .largeList (.mk cn _ _ _) => [path ++ "." ++ childName cn, path]
    | _ => [path]
  | x => if (interpDT ext dt nullable md x).isOk then [] else [path]

def blameAll (ext : Ext) (path : String) (dt : DataType) (nullable : Bool) (md : Metadata) : SVals → List String
  | .nil => []
  | .cons x rest => blameDT ext path dt nullable md x ++ blameAll ext path dt nullable md rest

/-- positional record: element k against field k -/
def blameNth (ext : Ext) (path : String) : List Field → SVals → List String
  | [], _ => []
  | _, .nil => []
  | (.mk n dt nl md) :: fs, .cons x rest => blameDT ext (path ++ "." ++ n) dt nl md x ++ blameNth ext path fs rest

def blameFields (ext : Ext) (path : String) (fs : List Field) : SFields → List String
  | .nil => []
  | .cons key _ x rest =>
    (match fs.find? (·.name == key) with
      | some (.mk n dt nl md) => blameDT ext (path ++ "." ++ n) dt nl md x
      | none => []) ++ blameFields ext path fs rest

def blameEntriesStruct (ext : Ext) (path : String) (fs : List Field) : SEntries → List String
  | .nil => []
  | .cons k x rest =>
    (match (keyStr k).toOption.bind (fun key => fs.find? (·.name == key)) with
      | some (.mk n dt nl md) => blameDT ext (path ++ "." ++ n) dt nl md x
      | none => []) ++ blameEntriesStruct ext path fs rest

def blameEntriesMap (ext : Ext) (kp : String) (kdt : DataType) (knl : Bool) (kmd : Metadata)
    (vp : String) (vdt : DataType) (vnl : Bool) (vmd : Metadata) : SEntries → List String
  | .nil => []
  | .cons k x rest =>
    blameDT ext kp kdt knl kmd k ++ blameDT ext vp vdt vnl vmd x ++ blameEntriesMap ext kp kdt knl kmd vp vdt vnl vmd rest

def blameOpsStruct (ext : Ext) (path : String) (fs : List Field) : SMapOps → List String
  | .key k (.value x rest) =>
    (match (keyStr k).toOption.bind (fun key => fs.find? (·.name == key)) with
      | some (.mk n dt nl md) => blameDT ext (path ++ "." ++ n) dt nl md x
      | none => []) ++ blameOpsStruct ext path fs rest
  | _ => []

def blameOpsMap (ext : Ext) (kp : String) (kdt : DataType) (knl : Bool) (kmd : Metadata)
    (vp : String) (vdt : DataType) (vnl : Bool) (vmd : Metadata) : SMapOps → List String
  | .key k (.value x rest) =>
    blameDT ext kp kdt knl kmd k ++ blameDT ext vp vdt vnl vmd x ++ blameOpsMap ext kp kdt knl kmd vp vdt vnl vmd rest
  | _ => []

def opsKeys : SMapOps → List String
  | .key k (.value _ rest) => (match keyStr k with | .ok s => [s] | .error _ => []) ++ opsKeys rest
  | _ => []

def fieldKeys : SFields → List String
  | .nil => []
  | .cons key _ _ rest => key :: fieldKeys rest

def entryKeys : SEntries → List String
  | .nil => []
  | .cons k _ rest => (match keyStr k with | .ok s => [s] | .error _ => []) ++ entryKeys rest
end

/-- positions an error about row `x` may name -/
def blameRow (ext : Ext) (fields : List Field) (x : SVal) : List String :=
  blameDT ext "$" (.struct (Fields.ofList fields)) false [] x

end SaModel.Spec
