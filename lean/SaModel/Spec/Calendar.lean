/-
The proleptic Gregorian calendar, written from its definition — the SPECIFICATION side of C14's dates.

This file imports nothing (in particular nothing of `SaModel/Codec/*`): no closed formula, no era arithmetic,
no count of leap years by floor sums.  It says

* which years are leap years (the Gregorian rule: divisible by 4, except the centuries, except every fourth
  century), for every year of ℤ (astronomical numbering: year 0 = 1 BCE, as chrono and ISO 8601);
* how long the months are (a literal table, February by the leap rule);
* what the day after / before a date is (`nextDay`, `prevDay`);
* what "days since 1970-01-01" means, twice:
  - `IsDayNumber` — the least relation with 1970-01-01 ↦ 0 that is closed under next day / + 1 and previous
    day / − 1;
  - `dayNumber` — by counting: whole years one by one from 1970 (forwards or backwards), then whole months of
    the year one by one from January, then the days of the month.
* what "seconds / nanoseconds since the epoch" means on top of the day number (`secondsSinceEpoch`,
  `nanosSinceEpoch`).

That the calendar model of `Codec/Calendar.lean` (Hinnant's closed formulas) computes exactly this is
`SaModel/Props/C14Cal.lean`.
-/
namespace SaModel.Spec.Calendar

/-- a civil date (year, month, day); the year is astronomical (… −1, 0, 1 …) -/
abbrev Date := Int × Int × Int

/-- 1970-01-01 -/
def epoch : Date := (1970, 1, 1)

/-- Gregorian leap-year rule: every fourth year, but of the centuries only every fourth -/
def isLeap (y : Int) : Bool :=
  if y % 400 = 0 then true
  else if y % 100 = 0 then false
  else if y % 4 = 0 then true
  else false

/-- the lengths of January … December in a common year -/
def monthTable : List Int := [31, 28, 31, 30, 31, 30, 31, 31, 30, 31, 30, 31]

/-- length of month `m` (1 … 12) of year `y`; 0 for anything that is not a month -/
def monthLength (y m : Int) : Int :=
  if m < 1 then 0
  else if m = 2 ∧ isLeap y then 29
  else monthTable.getD (m - 1).toNat 0

def yearLength (y : Int) : Int := if isLeap y then 366 else 365

/-- a date of the calendar: month 1 … 12, day 1 … length of that month -/
def valid (dt : Date) : Bool :=
  1 ≤ dt.2.1 && dt.2.1 ≤ 12 && 1 ≤ dt.2.2 && dt.2.2 ≤ monthLength dt.1 dt.2.1

/-- the day after -/
def nextDay (dt : Date) : Date :=
  if dt.2.2 < monthLength dt.1 dt.2.1 then (dt.1, dt.2.1, dt.2.2 + 1)
  else if dt.2.1 < 12 then (dt.1, dt.2.1 + 1, 1)
  else (dt.1 + 1, 1, 1)

/-- the day before -/
def prevDay (dt : Date) : Date :=
  if 1 < dt.2.2 then (dt.1, dt.2.1, dt.2.2 - 1)
  else if 1 < dt.2.1 then (dt.1, dt.2.1 - 1, monthLength dt.1 (dt.2.1 - 1))
  else (dt.1 - 1, 12, 31)

/-- `IsDayNumber dt n`: the date `dt` is `n` days after 1970-01-01 (before, for negative `n`).  The least
relation that holds of the epoch and 0 and is closed under (next day, + 1) and (previous day, − 1). -/
inductive IsDayNumber : Date → Int → Prop
  | epoch : IsDayNumber epoch 0
  | next {dt : Date} {n : Int} : IsDayNumber dt n → IsDayNumber (nextDay dt) (n + 1)
  | prev {dt : Date} {n : Int} : IsDayNumber dt n → IsDayNumber (prevDay dt) (n - 1)

/-! ### the day number by counting -/

/-- days from 1970-01-01 to the first of January of the year `1970 + k`: the years 1970 … 1970 + k − 1, one by one -/
def daysUp : Nat → Int
  | 0 => 0
  | k + 1 => daysUp k + yearLength (1970 + k)

/-- days from the first of January of the year `1970 − k` to 1970-01-01: the years 1969 … 1970 − k, one by one -/
def daysDown : Nat → Int
  | 0 => 0
  | k + 1 => daysDown k + yearLength (1970 - (k + 1 : Nat))

/-- day number of the first of January of `y` -/
def daysBeforeYear (y : Int) : Int :=
  if 1970 ≤ y then daysUp (y - 1970).toNat else - daysDown (1970 - y).toNat

/-- the days of the first `k` months of the year `y`, one by one -/
def daysBeforeMonth (y : Int) : Nat → Int
  | 0 => 0
  | k + 1 => daysBeforeMonth y k + monthLength y (k + 1 : Nat)

/-- days since 1970-01-01 by counting whole years, whole months, days -/
def dayNumber (dt : Date) : Int :=
  daysBeforeYear dt.1 + daysBeforeMonth dt.1 (dt.2.1 - 1).toNat + (dt.2.2 - 1)

/-! ### instants -/

/-- seconds since 1970-01-01T00:00:00 of second-of-day `secs` on the day with day number `n` (no leap seconds:
every day has 86 400 seconds, as in Arrow, Unix time, chrono) -/
def secondsSinceEpoch (n : Int) (secs : Nat) : Int := n * 86400 + secs

/-- nanoseconds since the epoch -/
def nanosSinceEpoch (n : Int) (secs nanos : Nat) : Int := secondsSinceEpoch n secs * 1000000000 + nanos

/-! ### anchors (kernel-evaluated) -/

example : isLeap 2000 = true ∧ isLeap 1900 = false ∧ isLeap 2024 = true ∧ isLeap 2023 = false ∧
    isLeap 0 = true ∧ isLeap (-1) = false ∧ isLeap (-4) = true ∧ isLeap (-100) = false ∧ isLeap (-400) = true := by decide
example : nextDay (1999, 12, 31) = (2000, 1, 1) ∧ nextDay (2000, 2, 28) = (2000, 2, 29) ∧
    nextDay (2000, 2, 29) = (2000, 3, 1) ∧ nextDay (1900, 2, 28) = (1900, 3, 1) ∧ nextDay (-1, 12, 31) = (0, 1, 1) := by decide
example : prevDay (2000, 1, 1) = (1999, 12, 31) ∧ prevDay (2000, 3, 1) = (2000, 2, 29) ∧
    prevDay (1900, 3, 1) = (1900, 2, 28) ∧ prevDay (0, 1, 1) = (-1, 12, 31) := by decide
example : dayNumber (1970, 1, 1) = 0 ∧ dayNumber (1969, 12, 31) = -1 ∧ dayNumber (2000, 2, 29) = 11016 ∧
    dayNumber (1600, 3, 1) = -135080 := by decide +kernel
example : IsDayNumber (1970, 1, 3) 2 := IsDayNumber.next (IsDayNumber.next IsDayNumber.epoch)
example : IsDayNumber (1969, 12, 31) (-1) := IsDayNumber.prev IsDayNumber.epoch

end SaModel.Spec.Calendar
