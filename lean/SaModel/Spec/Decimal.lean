/-
What C15 *means*: the grammar of decimal text and its exact value.  Independent of the operational
model (`SaModel/Codec/Decimal.lean`); used by the theorems (`Props/C15.lean`) and, executed, by the
driver as the specification predicate.

  Dec := sign? digit* ('.' digit*)?      with at least one digit
  value (sg I . F) = ± N(I ++ F) / 10^|F|          (N = base-10 value of a digit string)
-/
namespace SaModel.Spec.Decimal

abbrev Bytes := List UInt8

def isDigit (c : UInt8) : Bool := decide (48 ≤ c.toNat ∧ c.toNat ≤ 57)
def digitVal (c : UInt8) : Nat := c.toNat - 48

/-- base-10 value of a digit string, most significant digit first -/
def digitsVal (ds : Bytes) : Nat := ds.foldl (fun acc c => acc * 10 + digitVal c) 0

inductive Sign where
  | none | plus | minus
deriving Repr, DecidableEq

def Sign.bytes : Sign → Bytes
  | .none => []
  | .plus => [43]
  | .minus => [45]

/-- the three syntactic parts of a decimal text -/
structure Parts where
  sign : Sign
  int : Bytes
  frac : Option Bytes      -- `none`: no point at all
deriving Repr, DecidableEq

def Parts.fracDigits (x : Parts) : Bytes := x.frac.getD []

def Parts.render (x : Parts) : Bytes :=
  x.sign.bytes ++ x.int ++ (match x.frac with | none => [] | some f => 46 :: f)

/-- the grammar's side conditions: digits only, at least one of them -/
def Parts.wf (x : Parts) : Bool :=
  x.int.all isDigit && x.fracDigits.all isDigit && decide (1 ≤ x.int.length + x.fracDigits.length)

/-- an optional leading sign -/
def splitSign (txt : Bytes) : Sign × Bytes :=
  match txt with
  | 43 :: r => (.plus, r)
  | 45 :: r => (.minus, r)
  | r => (.none, r)

/-- split at the first point -/
def splitPoint (sg : Sign) (r : Bytes) : Parts :=
  match r.dropWhile (· != 46) with
  | [] => ⟨sg, r.takeWhile (· != 46), none⟩
  | _ :: f => ⟨sg, r.takeWhile (· != 46), some f⟩

/-- split a text at an optional leading sign and at the first point (always succeeds) -/
def decompose (txt : Bytes) : Parts := splitPoint (splitSign txt).1 (splitSign txt).2

/-- `txt` is a decimal number -/
def Dec (txt : Bytes) : Prop := (decompose txt).wf = true

instance (txt : Bytes) : Decidable (Dec txt) := by unfold Dec; infer_instance

/-- |value txt| = mantissa txt / 10^(fracLen txt) -/
def mantissa (txt : Bytes) : Nat := digitsVal ((decompose txt).int ++ (decompose txt).fracDigits)
def fracLen (txt : Bytes) : Nat := (decompose txt).fracDigits.length
def isNeg (txt : Bytes) : Bool := (decompose txt).sign == .minus

/-- the signed numerator of `value txt = valNum txt / 10^(fracLen txt)` -/
def valNum (txt : Bytes) : Int := if isNeg txt then -(mantissa txt : Int) else mantissa txt

/-- `⌊ |value txt| · 10^s ⌋`: digits finer than the scale dropped (truncation toward zero) -/
def scaledFloor (txt : Bytes) (s : Int) : Nat :=
  mantissa txt * 10 ^ s.toNat / 10 ^ (fracLen txt + (-s).toNat)

def applySign (neg : Bool) (m : Nat) : Int := if neg then -(m : Int) else m

/-- what a `Decimal128(p, s)` column must do with `txt`: `some v` = store exactly `v`, `none` = error -/
def expected (p : Nat) (s : Int) (txt : Bytes) : Option Int :=
  if Dec txt ∧ scaledFloor txt s < 10 ^ p then some (applySign (isNeg txt) (scaledFloor txt s)) else none

/-- `txt` denotes exactly `v / 10^s` (cross-multiplied, so no rationals are needed) -/
def DenotesScaled (txt : Bytes) (v : Int) (s : Int) : Prop :=
  valNum txt * 10 ^ s.toNat = v * 10 ^ (-s).toNat * 10 ^ fracLen txt

instance (txt : Bytes) (v s : Int) : Decidable (DenotesScaled txt v s) := by unfold DenotesScaled; infer_instance

end SaModel.Spec.Decimal
