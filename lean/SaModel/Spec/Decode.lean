import SaModel.Data.Arr
/-
The oracle: what an array *means* under the Arrow columnar format, written independently of serde_arrow's
builders and readers.  `decodeAll a` reads every slot of `a` into a logical value; each slot is decoded on its
own (`R LVal`), so that garbage in a slot nobody references (hidden under a null parent, outside every offset
range, an unused dictionary value) never influences a slot that is well defined.

  null iff the validity bit (offset-aware) is clear — children are not looked at below a null;
  list / map entries from consecutive offsets; fixed-size entries i*n … (i+1)*n;
  dense union through (type id, offset), sparse union through (type id, row);
  dictionary through the key; byte views inline (≤ 12 bytes) or (buffer, offset).
-/
namespace SaModel.Spec
open SaModel

/-- bit `idx` of a bitmap with bit offset (LSB-first within a byte) -/
def getBit (b : Bits) (idx : Nat) : R Bool :=
  match b.data[(idx + b.offset) / 8]? with
  | none => fail "Invalid access in bitset"
  | some byte => .ok (byte.toNat.testBit ((idx + b.offset) % 8))

def isValid (v : Option Bits) (idx : Nat) : R Bool :=
  match v with
  | none => .ok true
  | some b => getBit b idx

/-- sequence a list of independently decoded slots -/
def allOk : List (R LVal) → R (List LVal)
  | [] => .ok []
  | x :: xs => do
    let v ← x
    let vs ← allOk xs
    pure (v :: vs)

def slot (xs : List (R LVal)) (i : Nat) : R LVal :=
  match xs[i]? with
  | some r => r
  | none => fail "child index out of range"

/-- slots `s … e-1` of the child -/
def range (xs : List (R LVal)) (s e : Int) : R (List LVal) :=
  if 0 ≤ s ∧ s ≤ e ∧ e ≤ xs.length then allOk ((xs.drop s.toNat).take (e.toNat - s.toNat))
  else fail "offsets out of range"

def leafOf : PrimTy → Int → LVal
  | .float16, x | .float32, x | .float64, x => .float x
  | _, x => .int x

def isUtf8Ty : BytesTy → Bool
  | .utf8 | .largeUtf8 => true
  | _ => false

def bytesVal (utf8 : Bool) (b : Bytes) : LVal := if utf8 then .str b else .bin b

/-- little-endian bytes `from … from+n-1` of a 128-bit view descriptor -/
def u128Bytes (x : Nat) (start n : Nat) : Bytes :=
  (List.range n).map fun k => UInt8.ofNat ((x >>> (8 * (start + k))) % 256)

def decodeView (buffers : List Bytes) (desc : Nat) : R Bytes :=
  let len := desc % 4294967296
  if len ≤ 12 then .ok (u128Bytes desc 4 len)
  else
    let bufIdx := (desc >>> 64) % 4294967296
    let off := (desc >>> 96) % 4294967296
    match buffers[bufIdx]? with
    | none => fail "view buffer index out of range"
    | some buf =>
      if off + len ≤ buf.length then .ok ((buf.drop off).take len) else fail "view range out of buffer"

/-- per-slot validity then payload -/
def withValidity (v : Option Bits) (i : Nat) (payload : R LVal) : R LVal := do
  if !(← isValid v i) then pure .null else payload

def indexOfTypeId (ids : List Int) (t : Int) : Option Nat :=
  let rec go : List Int → Nat → Option Nat
    | [], _ => none
    | x :: xs, k => if x == t then some k else go xs (k + 1)
  go ids 0

mutual
def decodeAll : Arr → List (R LVal)
  | .null len => List.replicate len (.ok .null)
  | .boolean len v vals => (List.range len).map fun i => withValidity v i (do pure (.bool (← getBit vals i)))
  | .prim ty v vals => (List.range vals.length).map fun i => withValidity v i (.ok (leafOf ty (vals.getD i 0)))
  | .time _ _ v vals => (List.range vals.length).map fun i => withValidity v i (.ok (.int (vals.getD i 0)))
  | .timestamp _ _ v vals => (List.range vals.length).map fun i => withValidity v i (.ok (.int (vals.getD i 0)))
  | .decimal128 _ _ v vals => (List.range vals.length).map fun i => withValidity v i (.ok (.int (vals.getD i 0)))
  | .bytes ty v offs data => (List.range (offs.length - 1)).map fun i => withValidity v i (
      let s := offs.getD i 0
      let e := offs.getD (i + 1) 0
      if 0 ≤ s ∧ s ≤ e ∧ e ≤ data.length then .ok (bytesVal (isUtf8Ty ty) ((data.drop s.toNat).take (e.toNat - s.toNat)))
      else fail "offsets out of range")
  | .bytesView ty v views buffers => (List.range views.length).map fun i => withValidity v i (do
      let b ← decodeView buffers (views.getD i 0)
      pure (bytesVal (ty == .utf8View) b))
  | .fixedSizeBinary n v data =>
    if n ≤ 0 then [] else
    (List.range (data.length / n.toNat)).map fun i => withValidity v i (.ok (.bin ((data.drop (i * n.toNat)).take n.toNat)))
  | .struct len v fs =>
    let cols := decodeFields fs
    (List.range len).map fun i => withValidity v i (do
      let vals ← cols.mapM fun (nm, c) => do pure (nm, ← slot c i)
      pure (.struct (LFields.ofList vals)))
  | .list _ v offs _ el =>
    let elems := decodeAll el
    (List.range (offs.length - 1)).map fun i => withValidity v i (do
      pure (.list (LVals.ofList (← range elems (offs.getD i 0) (offs.getD (i + 1) 0)))))
  | .fixedSizeList len v n _ el =>
    let elems := decodeAll el
    (List.range len).map fun i => withValidity v i (do
      if n < 0 then fail "negative fixed size" else
      pure (.list (LVals.ofList (← range elems (i * n) ((i + 1) * n)))))
  | .map v offs _ ks vs =>
    let keys := decodeAll ks
    let vals := decodeAll vs
    (List.range (offs.length - 1)).map fun i => withValidity v i (do
      let k ← range keys (offs.getD i 0) (offs.getD (i + 1) 0)
      let w ← range vals (offs.getD i 0) (offs.getD (i + 1) 0)
      pure (.map (LEntries.ofList (k.zip w))))
  | .dictionary ks vs =>
    let keys := decodeAll ks
    let vals := decodeAll vs
    keys.map fun k => do
      match (← k) with
      | .null => pure .null
      | .int j => if 0 ≤ j then slot vals j.toNat else fail "negative dictionary key"
      | _ => fail "dictionary key is not an integer"
  | .union types offs fs =>
    let cols := decodeUFields fs
    (List.range types.length).map fun i => do
      let t := types.getD i 0
      match indexOfTypeId (cols.map (·.1)) t with
      | none => fail "unknown union type id"
      | some pos =>
        let child := (cols.getD pos (0, [])).2
        match offs with
        | some o =>
          let j := o.getD i (-1)
          if i < o.length ∧ 0 ≤ j then pure (.union t (← slot child j.toNat)) else fail "union offset out of range"
        | none => pure (.union t (← slot child i))
def decodeFields : ArrFields → List (String × List (R LVal))
  | .nil => []
  | .cons m a rest => (m.name, decodeAll a) :: decodeFields rest
def decodeUFields : ArrUFields → List (Int × List (R LVal))
  | .nil => []
  | .cons i _ a rest => (i, decodeAll a) :: decodeUFields rest
end

/-- logical value of row `i` -/
def decode (a : Arr) (i : Nat) : R LVal := slot (decodeAll a) i

def Arr.len (a : Arr) : Nat := (decodeAll a).length

end SaModel.Spec
