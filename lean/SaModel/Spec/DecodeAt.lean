import SaModel.Spec.Decode
/-
Slot-wise form of the oracle: `decodeAt a i` computes the logical value of slot `i` without materialising the
other slots (`Spec.decode a i = slot (decodeAll a) i` builds all of them, which is the right *definition* but
unusable on a view that declares 2^64 rows).  `lenOf a` is the closed form of `(decodeAll a).length`.
`SaModel/Lemmas/C02DecodeAt.lean` proves `decodeAll a = (List.range (lenOf a)).map (decodeAt a)` and hence
`decodeAt a i = decode a i`; everything downstream (driver, C02, C12, C17) uses the slot-wise form.
-/
namespace SaModel.Spec
open SaModel

def oob {α} : R α := fail "child index out of range"

def lenOf : Arr → Nat
  | .null len => len
  | .boolean len _ _ => len
  | .prim _ _ vals | .time _ _ _ vals | .timestamp _ _ _ vals | .decimal128 _ _ _ vals => vals.length
  | .bytes _ _ offs _ => offs.length - 1
  | .bytesView _ _ views _ => views.length
  | .fixedSizeBinary n _ data => if n ≤ 0 then 0 else data.length / n.toNat
  | .struct len _ _ => len
  | .list _ _ offs _ _ => offs.length - 1
  | .fixedSizeList len _ _ _ _ => len
  | .map _ offs _ _ _ => offs.length - 1
  | .dictionary ks _ => lenOf ks
  | .union types _ _ => types.length

/-- slots `s, s+1, …` (`n` of them) through a slot reader, in order, first error wins -/
def seqAt (f : Nat → R LVal) : Nat → Nat → R (List LVal)
  | _, 0 => .ok []
  | s, n + 1 => do
    let v ← f s
    let vs ← seqAt f (s + 1) n
    pure (v :: vs)

/-- `range (decodeAll child) s e`, slot-wise: `len` is the child's length -/
def rangeAt (f : Nat → R LVal) (len : Nat) (s e : Int) : R (List LVal) :=
  if 0 ≤ s ∧ s ≤ e ∧ e ≤ len then seqAt f s.toNat (e.toNat - s.toNat)
  else fail "offsets out of range"

def ArrUFields.ids : ArrUFields → List Int
  | .nil => []
  | .cons i _ _ r => i :: ArrUFields.ids r

def ArrUFields.child? : ArrUFields → Nat → Option Arr
  | .nil, _ => none
  | .cons _ _ a _, 0 => some a
  | .cons _ _ _ r, k + 1 => ArrUFields.child? r k

mutual
def decodeAt : Arr → Nat → R LVal
  | .null len, i => if i < len then .ok .null else oob
  | .boolean len v vals, i => if i < len then withValidity v i (do pure (.bool (← getBit vals i))) else oob
  | .prim ty v vals, i => if i < vals.length then withValidity v i (.ok (leafOf ty (vals.getD i 0))) else oob
  | .time _ _ v vals, i => if i < vals.length then withValidity v i (.ok (.int (vals.getD i 0))) else oob
  | .timestamp _ _ v vals, i => if i < vals.length then withValidity v i (.ok (.int (vals.getD i 0))) else oob
  | .decimal128 _ _ v vals, i => if i < vals.length then withValidity v i (.ok (.int (vals.getD i 0))) else oob
  | .bytes ty v offs data, i =>
    if i < offs.length - 1 then withValidity v i (
      let s := offs.getD i 0
      let e := offs.getD (i + 1) 0
      if 0 ≤ s ∧ s ≤ e ∧ e ≤ data.length then .ok (bytesVal (isUtf8Ty ty) ((data.drop s.toNat).take (e.toNat - s.toNat)))
      else fail "offsets out of range")
    else oob
  | .bytesView ty v views buffers, i =>
    if i < views.length then withValidity v i (do
      let b ← decodeView buffers (views.getD i 0)
      pure (bytesVal (ty == .utf8View) b))
    else oob
  | .fixedSizeBinary n v data, i =>
    if n ≤ 0 then oob
    else if i < data.length / n.toNat then withValidity v i (.ok (.bin ((data.drop (i * n.toNat)).take n.toNat)))
    else oob
  | .struct len v fs, i =>
    if i < len then withValidity v i (do pure (.struct (LFields.ofList (← decodeFieldsAt fs i)))) else oob
  | .list _ v offs _ el, i =>
    if i < offs.length - 1 then withValidity v i (do
      pure (.list (LVals.ofList (← rangeAt (decodeAt el) (lenOf el) (offs.getD i 0) (offs.getD (i + 1) 0)))))
    else oob
  | .fixedSizeList len v n _ el, i =>
    if i < len then withValidity v i (do
      if n < 0 then fail "negative fixed size" else
      pure (.list (LVals.ofList (← rangeAt (decodeAt el) (lenOf el) (i * n) ((i + 1) * n)))))
    else oob
  | .map v offs _ ks vs, i =>
    if i < offs.length - 1 then withValidity v i (do
      let k ← rangeAt (decodeAt ks) (lenOf ks) (offs.getD i 0) (offs.getD (i + 1) 0)
      let w ← rangeAt (decodeAt vs) (lenOf vs) (offs.getD i 0) (offs.getD (i + 1) 0)
      pure (.map (LEntries.ofList (k.zip w))))
    else oob
  | .dictionary ks vs, i =>
    if i < lenOf ks then do
      match (← decodeAt ks i) with
      | .null => pure .null
      | .int j => if 0 ≤ j then decodeAt vs j.toNat else fail "negative dictionary key"
      | _ => fail "dictionary key is not an integer"
    else oob
  | .union types offs fs, i =>
    if i < types.length then do
      let t := types.getD i 0
      match indexOfTypeId (ArrUFields.ids fs) t with
      | none => fail "unknown union type id"
      | some pos =>
        match offs with
        | some o =>
          let j := o.getD i (-1)
          if i < o.length ∧ 0 ≤ j then pure (.union t (← decodeVariantAt fs pos j.toNat)) else fail "union offset out of range"
        | none => pure (.union t (← decodeVariantAt fs pos i))
    else oob
def decodeFieldsAt : ArrFields → Nat → R (List (String × LVal))
  | .nil, _ => .ok []
  | .cons m a rest, i => do
    let v ← decodeAt a i
    let r ← decodeFieldsAt rest i
    pure ((m.name, v) :: r)
/-- slot `j` of the child at position `pos` -/
def decodeVariantAt : ArrUFields → Nat → Nat → R LVal
  | .nil, _, _ => oob
  | .cons _ _ a _, 0, j => decodeAt a j
  | .cons _ _ _ r, k + 1, j => decodeVariantAt r k j
end

end SaModel.Spec
