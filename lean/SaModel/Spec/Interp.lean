import SaModel.Spec.Leaf
import SaModel.Spec.Decode
/-
The documented Rust → Arrow mapping as a function: `interp f x` is the logical value the column of field `f`
must hold for the serde value `x`, or an error when `x` is not representable in `f` (C05).  Written
independently of builder mechanics: records are matched by field *name*, numbers by *value*, variants by
index; no offsets, bitmaps, counters or caches appear here.  This file does NOT import the builder model
(`Build/*`): the leaves are `Spec/Leaf.lean`; `Ext` (functions of other crates), `strBytes`, `indexOfName`, `strategyOf`
are `Data/Ext.lean`.

A malformed call stream (map value without key …) has no meaning: `malformed`.
-/
namespace SaModel.Spec
open SaModel SaModel.Build

def malformed {α} : R α := fail "malformed-stream"

/-- what a string means for the VALUE type of a dictionary column: `Spec.dictValue` (Spec/Leaf.lean) -/
def interpDictStr (ext : Ext) (dt : DataType) (s : String) : R LVal := liftO (dictValue ext dt s)

/-- plain scalars: **the leaf table of the specification**, `Spec.specLeaf` (Spec/Leaf.lean — written from the
documentation, independent of the builder model; `Lemmas/C01LeafBridge.lean` proves `interpScalar_eq_old`: the model's
`convLeaf` / `scalarToString` compute it) -/
def interpScalar (ext : Ext) (dt : DataType) (x : SVal) : R LVal := liftO (specLeaf ext dt x)

/-- a binary value given element by element (`Spec.bytesOf`) -/
def specBytes (xs : SVals) : R Bytes := liftO (bytesOf xs)

/-- the field name a map key presents to a struct column (`Spec.keyOf`) -/
def specKey (k : SVal) : R String := liftO (keyOf k)

def isUnknownVariant (dt : DataType) (md : Metadata) : Bool :=
  match dt with
  | .null => strategyOf md == some "UnknownVariant"
  | _ => false

/-- a null: allowed for `Null` columns and nullable fields; never for unions or unknown-variant placeholders -/
def interpNull (dt : DataType) (nullable : Bool) (md : Metadata) : R LVal :=
  if isUnknownVariant dt md then fail "unknown variant"
  else match dt with
    | .null => .ok .null
    | .union _ _ => fail "unions cannot hold nulls"
    | _ => if nullable then .ok .null else fail "null for non-nullable field"

/-- exactly one value per schema field: none ⇒ null if nullable, several ⇒ duplicate -/
def pickOne (name : String) (nullable : Bool) (dt : DataType) (md : Metadata) (found : List LVal) : R LVal :=
  match found with
  | [] => if !nullable then fail s!"missing field {name}" else interpNull dt nullable md
  | [v] => .ok v
  | _ => fail s!"duplicate field {name}"

/-- assemble a struct value from per-field candidate lists -/
def structOf (fields : List Field) (collect : Field → R (List LVal)) : R LVal := do
  let vals ← fields.mapM fun f => do
    let found ← collect f
    let v ← pickOne f.name f.nullable f.dataType f.metadata found
    pure (f.name, v)
  pure (.struct (LFields.ofList vals))

def isAlternating : SMapOps → Bool
  | .nil => true
  | .key _ (.value _ rest) => isAlternating rest
  | _ => false

mutual
/-- the documented mapping at one field -/
def interpDT (ext : Ext) (dt : DataType) (nullable : Bool) (md : Metadata) : SVal → R LVal
  | .some v => interpDT ext dt nullable md v
  | .newtypeStruct _ v => interpDT ext dt nullable md v
  -- a unit struct is a unit (repo fix ae2fc46: `serialize_unit_struct` defaults to `serialize_unit`)
  | .none | .unit | .unitStruct _ => interpNull dt nullable md
  | .seq xs =>
    if isUnknownVariant dt md then fail "unknown variant" else
    match dt with
    | .list (.mk _ cdt cn cmd) | .largeList (.mk _ cdt cn cmd) => do
      pure (.list (LVals.ofList (← interpAll ext cdt cn cmd xs)))
    | .fixedSizeList (.mk _ cdt cn cmd) n => do
      let vs ← interpAll ext cdt cn cmd xs
      if (vs.length : Int) = n then pure (.list (LVals.ofList vs)) else fail "wrong element count"
    | .binary | .largeBinary | .binaryView => do pure (.bin (← specBytes xs))
    | .fixedSizeBinary n => do
      let b ← specBytes xs
      if (b.length : Int) = n then pure (.bin b) else fail "wrong length"
    | .struct _ => fail "a sequence is not a presentation of a record"
    | _ => fail "not a sequence type"
  | .tuple xs | .tupleStruct _ xs =>
    if isUnknownVariant dt md then fail "unknown variant" else
    match dt with
    | .list (.mk _ cdt cn cmd) | .largeList (.mk _ cdt cn cmd) => do
      pure (.list (LVals.ofList (← interpAll ext cdt cn cmd xs)))
    | .fixedSizeList (.mk _ cdt cn cmd) n => do
      let vs ← interpAll ext cdt cn cmd xs
      if (vs.length : Int) = n then pure (.list (LVals.ofList vs)) else fail "wrong element count"
    | .binary | .largeBinary | .binaryView => do pure (.bin (← specBytes xs))
    | .fixedSizeBinary n => do
      let b ← specBytes xs
      if (b.length : Int) = n then pure (.bin b) else fail "wrong length"
    | .struct fs => structOf fs.toList (fun f => interpNth ext f.dataType f.nullable f.metadata (indexOfName (fs.toList.map Field.name) f.name |>.getD 0) xs)
    | _ => fail "not a sequence type"
  | .bytes b =>
    if isUnknownVariant dt md then fail "unknown variant" else
    match dt with
    | .list (.mk _ cdt _ _) | .largeList (.mk _ cdt _ _) => do
      let vs ← b.mapM fun x => interpScalar ext cdt (.int .u8 x.toNat)
      pure (.list (LVals.ofList vs))
    | _ => interpScalar ext dt (.bytes b)
  | .record _ fields =>
    if isUnknownVariant dt md then fail "unknown variant" else
    match dt with
    | .struct fs => structOf fs.toList (fun f => interpByName ext f.name f.dataType f.nullable f.metadata fields)
    | _ => fail "not a struct type"
  | .map es =>
    if isUnknownVariant dt md then fail "unknown variant" else
    match dt with
    | .struct fs => do
      let _ ← keysAreStrings es
      structOf fs.toList (fun f => interpByKey ext f.name f.dataType f.nullable f.metadata es)
    | .map (.mk _ (.struct (.cons (.mk _ kdt kn kmd) (.cons (.mk _ vdt vn vmd) _))) _ _) _ => do
      pure (.map (LEntries.ofList (← interpEntries ext kdt kn kmd vdt vn vmd es)))
    | _ => fail "not a map type"
  | .mapRaw ops =>
    if isUnknownVariant dt md then fail "unknown variant" else
    if !isAlternating ops then malformed else
    match dt with
    | .struct fs => do
      let _ ← opsKeysAreStrings ops
      structOf fs.toList (fun f => interpByKeyOps ext f.name f.dataType f.nullable f.metadata ops)
    | .map (.mk _ (.struct (.cons (.mk _ kdt kn kmd) (.cons (.mk _ vdt vn vmd) _))) _ _) _ => do
      pure (.map (LEntries.ofList (← interpOps ext kdt kn kmd vdt vn vmd ops)))
    | _ => fail "not a map type"
  | .unitVariant n i vn =>
    match dt with
    | .union fs _ =>
      match fs.toList[i]? with
      | some (tid, .mk _ cdt cn cmd) => do pure (.union tid (← interpNull cdt cn cmd))
      | none => fail "unknown variant"
    | _ => interpScalar ext dt (.unitVariant n i vn)
  | .newtypeVariant _ i _ v =>
    match dt with
    | .union fs _ =>
      match fs.toList[i]? with
      | some (tid, .mk _ cdt cn cmd) => do pure (.union tid (← interpDT ext cdt cn cmd v))
      | none => fail "unknown variant"
    | _ => fail "not a union type"
  | .tupleVariant _ i _ xs =>
    match dt with
    | .union fs _ =>
      match fs.toList[i]? with
      | some (tid, .mk _ cdt cn cmd) =>
        if isUnknownVariant cdt cmd then fail "unknown variant" else
        match cdt with
        | .struct cfs => do
          pure (.union tid (← structOf cfs.toList (fun f => interpNth ext f.dataType f.nullable f.metadata (indexOfName (cfs.toList.map Field.name) f.name |>.getD 0) xs)))
        | .list (.mk _ edt en emd) | .largeList (.mk _ edt en emd) => do
          pure (.union tid (.list (LVals.ofList (← interpAll ext edt en emd xs))))
        | .fixedSizeList (.mk _ edt en emd) n => do
          let vs ← interpAll ext edt en emd xs
          if (vs.length : Int) = n then pure (.union tid (.list (LVals.ofList vs))) else fail "wrong element count"
        | .binary | .largeBinary | .binaryView => do pure (.union tid (.bin (← specBytes xs)))
        | .fixedSizeBinary n => do
          let b ← specBytes xs
          if (b.length : Int) = n then pure (.union tid (.bin b)) else fail "wrong length"
        | _ => let _ := cn; fail "variant type is not a tuple"
      | none => fail "unknown variant"
    | _ => fail "not a union type"
  | .structVariant _ i _ fields =>
    match dt with
    | .union fs _ =>
      match fs.toList[i]? with
      | some (tid, .mk _ cdt _ cmd) =>
        if isUnknownVariant cdt cmd then fail "unknown variant" else
        match cdt with
        | .struct cfs => do
          pure (.union tid (← structOf cfs.toList (fun f => interpByName ext f.name f.dataType f.nullable f.metadata fields)))
        | _ => fail "variant type is not a struct"
      | none => fail "unknown variant"
    | _ => fail "not a union type"
  | .bool b => if isUnknownVariant dt md then fail "unknown variant" else interpScalar ext dt (.bool b)
  | .int t v => if isUnknownVariant dt md then fail "unknown variant" else interpScalar ext dt (.int t v)
  | .f32 b => if isUnknownVariant dt md then fail "unknown variant" else interpScalar ext dt (.f32 b)
  | .f64 b => if isUnknownVariant dt md then fail "unknown variant" else interpScalar ext dt (.f64 b)
  | .char c => if isUnknownVariant dt md then fail "unknown variant" else interpScalar ext dt (.char c)
  | .str s => if isUnknownVariant dt md then fail "unknown variant" else interpScalar ext dt (.str s)

def interpAll (ext : Ext) (dt : DataType) (nullable : Bool) (md : Metadata) : SVals → R (List LVal)
  | .nil => .ok []
  | .cons x rest => do
    let v ← interpDT ext dt nullable md x
    let vs ← interpAll ext dt nullable md rest
    pure (v :: vs)

/-- the `k`-th element of a positional record, interpreted at a field (empty when the tuple is too short) -/
def interpNth (ext : Ext) (dt : DataType) (nullable : Bool) (md : Metadata) : Nat → SVals → R (List LVal)
  | _, .nil => .ok []
  | 0, .cons x _ => do pure [← interpDT ext dt nullable md x]
  | k + 1, .cons _ rest => interpNth ext dt nullable md k rest

/-- every value a struct presentation gives for the field called `name` -/
def interpByName (ext : Ext) (name : String) (dt : DataType) (nullable : Bool) (md : Metadata) : SFields → R (List LVal)
  | .nil => .ok []
  | .cons key _ x rest => do
    let vs ← interpByName ext name dt nullable md rest
    if key == name then do pure ((← interpDT ext dt nullable md x) :: vs) else pure vs

def interpByKey (ext : Ext) (name : String) (dt : DataType) (nullable : Bool) (md : Metadata) : SEntries → R (List LVal)
  | .nil => .ok []
  | .cons k x rest => do
    let vs ← interpByKey ext name dt nullable md rest
    if keyOf k == some name then do pure ((← interpDT ext dt nullable md x) :: vs) else pure vs

def interpByKeyOps (ext : Ext) (name : String) (dt : DataType) (nullable : Bool) (md : Metadata) : SMapOps → R (List LVal)
  | .key k (.value x rest) => do
    let vs ← interpByKeyOps ext name dt nullable md rest
    if keyOf k == some name then do pure ((← interpDT ext dt nullable md x) :: vs) else pure vs
  | _ => .ok []

def interpEntries (ext : Ext) (kdt : DataType) (kn : Bool) (kmd : Metadata) (vdt : DataType) (vn : Bool) (vmd : Metadata) :
    SEntries → R (List (LVal × LVal))
  | .nil => .ok []
  | .cons k x rest => do
    let kv ← interpDT ext kdt kn kmd k
    let vv ← interpDT ext vdt vn vmd x
    let r ← interpEntries ext kdt kn kmd vdt vn vmd rest
    pure ((kv, vv) :: r)

def interpOps (ext : Ext) (kdt : DataType) (kn : Bool) (kmd : Metadata) (vdt : DataType) (vn : Bool) (vmd : Metadata) :
    SMapOps → R (List (LVal × LVal))
  | .key k (.value x rest) => do
    let kv ← interpDT ext kdt kn kmd k
    let vv ← interpDT ext vdt vn vmd x
    let r ← interpOps ext kdt kn kmd vdt vn vmd rest
    pure ((kv, vv) :: r)
  | _ => .ok []

/-- a struct fed from a map needs string keys -/
def keysAreStrings : SEntries → R Unit
  | .nil => .ok ()
  | .cons k _ rest => do
    let _ ← specKey k
    keysAreStrings rest

def opsKeysAreStrings : SMapOps → R Unit
  | .nil => .ok ()
  | .key k rest => do
    let _ ← specKey k
    opsKeysAreStrings rest
  | .value _ rest => opsKeysAreStrings rest
end

mutual
/-- does the value contain a malformed map call stream anywhere (value without key, key without value)? -/
def containsMalformed : SVal → Bool
  | .some v | .newtypeStruct _ v | .newtypeVariant _ _ _ v => containsMalformed v
  | .seq xs | .tuple xs | .tupleStruct _ xs | .tupleVariant _ _ _ xs => anyMalformed xs
  | .record _ fs | .structVariant _ _ _ fs => anyMalformedF fs
  | .map es => anyMalformedE es
  | .mapRaw ops => !isAlternating ops || anyMalformedO ops
  | _ => false
def anyMalformed : SVals → Bool
  | .nil => false
  | .cons x r => containsMalformed x || anyMalformed r
def anyMalformedF : SFields → Bool
  | .nil => false
  | .cons _ _ x r => containsMalformed x || anyMalformedF r
def anyMalformedE : SEntries → Bool
  | .nil => false
  | .cons k x r => containsMalformed k || containsMalformed x || anyMalformedE r
def anyMalformedO : SMapOps → Bool
  | .nil => false
  | .key k r => containsMalformed k || anyMalformedO r
  | .value x r => containsMalformed x || anyMalformedO r
end

def interp (ext : Ext) : Field → SVal → R LVal
  | .mk _ dt nullable md, x => interpDT ext dt nullable md x

/-- a whole record against the root schema (the root struct is not nullable) -/
def interpRow (ext : Ext) (fields : List Field) (x : SVal) : R LVal :=
  interpDT ext (.struct (Fields.ofList fields)) false [] x

end SaModel.Spec
