import SaModel.Basic.Outcome
import SaModel.Basic.Float
import SaModel.Data.Schema
import SaModel.Data.SVal
import SaModel.Data.Arr
import SaModel.Data.Ext
/-
LEAF SEMANTICS OF THE SPECIFICATION — what ONE scalar serde call means in a column of a given Arrow type.

Written from the documentation, NOT from the builder model: this file imports `Data/*` and `Basic/*` only (no
`Build/*`); `Spec.interpScalar` (Spec/Interp.lean) is `specLeaf`, and `Lemmas/C01LeafBridge.lean` proves ONCE that the
model's `convLeaf` / `scalarToString` / `u8All` / `keyStr` compute these functions (`convLeaf_eq_specLeaf`,
`interpScalar_eq_old`, `bytesOf_eq`, `keyOf_eq`).  `none` = the mapping gives the call no meaning in that column
(C05: such a call must be refused).

Sources (serde_arrow/Status.md, serde_arrow/src/lib.rs `mod schema` "The mapping between Rust and Arrow types",
Changes.md, the Arrow columnar format):
* integers (`u8`..`u64`, `i8`..`i64`) ↔ `Int8`..`UInt64`: the NUMBER, whenever it lies in the column type's range —
  the serde call width does not matter; outside the range: no meaning (C05 "integers out of range in both directions");
* `char`: "serialized as u32" (Status.md) — the code point, as a number;
* `bool` into integer columns: "Add support to serialize / deserialize `bool` from integer arrays" (Changes.md 0.12.0) — 0 / 1;
* floats: `f32` ↔ `Float32`, `f64` ↔ `Float64` bit for bit; `f32` into `Float64` is the (exact) IEEE widening;
  the DOCUMENTED LOSSY cells (C05 statement: "float narrowing, integer-to-float, decimal truncation to the declared
  scale"): `f64` into `Float32`, `f32` / `f64` into `Float16` ("Float16: can be serialized / deserialized from Rust
  f32") — the nearest value of the narrower format, ties to even —, integers and chars into `Float32` / `Float64` — the
  nearest float (Rust `as`).  Rounding is `Basic/Float.lean` (shared arithmetic, not builder code);
* strings: `str` ↔ `Utf8` / `LargeUtf8` / `Utf8View` — the UTF-8 bytes; "Allows for numbers, booleans and chars to
  be serialized to strings" (Changes.md 0.13.2) — their `to_string()`; a unit variant is its name ("enums without data
  as strings");
* bytes ↔ `Binary` / `LargeBinary` / `BinaryView`; `FixedSizeBinary(n)`: exactly `n` bytes;
* `Date32` / `Date64` / `Time32` / `Time64` / `Timestamp` / `Duration` / `Decimal128`: a string means the value the
  PARSER assigns to it (Status.md "is serialized as Serde strings … can be mapped to Date32 …"); the parsers are
  the parameters `Ext.parse…` (functions of chrono / the decimal parser; their own specifications are C14
  `Props.C14.specDuration`, `instantNanos`, `date_exact` and C15 `Spec.Decimal.expected` — tied to the codec instance
  of `Ext` in `Lemmas/C05LeafSpecCodec.lean`), taken through `textValue` below; an integer of the storage width
  (or `i64`, when it fits) is the stored number itself (`chrono::serde::ts_microseconds`: "is serialized as `i64`, can be
  mapped to Timestamp"); floats into `Decimal128`: "decimals that are serialized to string or float are supported.
  Values are truncated to the given (precision, scale)" — documented lossy, the parameter `Ext.floatToDecimal`;
* `Dictionary(_, V)`: the string form of the call, at the value type `V`;
* `Null`: a unit struct (`()` / `None` are handled by `Spec.interpNull`: null needs a nullable field or a `Null` column).

WHICH call widths a temporal column answers (`i32` and `i64` only for dates and times, `i64` only for timestamps,
every width for durations) is not in the prose documentation; it is the accept matrix of the crate, which the translated
table `Props/C05Gen.lean` (`gen_accept_matrix`) reads from the sources.  An `iN` call is assumed to carry an `iN` value
(`SValOK`): a call of the column's own width is not range-checked again.
-/
namespace SaModel.Spec
open SaModel SaModel.Build

/-! ### numbers -/

/-- the value, if it lies in the range of the integer type -/
def fits (t : IntTy) (v : Int) : Option Int := if t.min ≤ v ∧ v ≤ t.max then some v else none

/-- the NUMBER a call presents to an integer column: an integer of any width, a bool as 0 / 1, a char as its code point -/
def numberOf : SVal → Option Int
  | .int _ v => some v
  | .bool b => some (if b then 1 else 0)
  | .char c => some (c : Int)
  | _ => none

/-- an integer column of type `t` holds the number presented, when it is in range -/
def intCell (t : IntTy) (x : SVal) : Option LVal := do
  let v ← numberOf x
  let w ← fits t v
  pure (.int w)

/-- the integer type of an integer column -/
def intColumn : DataType → Option IntTy
  | .int8 => some .i8 | .int16 => some .i16 | .int32 => some .i32 | .int64 => some .i64
  | .uint8 => some .u8 | .uint16 => some .u16 | .uint32 => some .u32 | .uint64 => some .u64
  | _ => none

/-! ### floats (bit patterns) -/

/-- the integer a call presents to a float column (no bools) -/
def wholeOf : SVal → Option Int
  | .int _ v => some v
  | .char c => some (c : Int)
  | _ => none

/-- `Float32`: own width bit for bit; `f64`, integers, chars: the nearest `f32` (documented lossy) -/
def f32Cell : SVal → Option LVal
  | .f32 b => some (.float b)
  | .f64 b => some (.float (Float.convert Float.f64 Float.f32 b))
  | x => (wholeOf x).map fun v => .float (Float.ofInt Float.f32 v)

/-- `Float64`: own width bit for bit; `f32`: the IEEE widening (exact); integers, chars: the nearest `f64` (lossy beyond 2^53) -/
def f64Cell : SVal → Option LVal
  | .f64 b => some (.float b)
  | .f32 b => some (.float (Float.convert Float.f32 Float.f64 b))
  | x => (wholeOf x).map fun v => .float (Float.ofInt Float.f64 v)

/-- `Float16`: from `f32` / `f64` only, the nearest `f16` (documented lossy) -/
def f16Cell : SVal → Option LVal
  | .f32 b => some (.float (Float.convert Float.f32 Float.f16 b))
  | .f64 b => some (.float (Float.convert Float.f64 Float.f16 b))
  | _ => none

/-! ### text -/

/-- `to_string()` of the scalar calls a string column takes: the string itself, `true` / `false`, the decimal numeral,
Rust's shortest round-trip float text (`Ext.f32Str` / `f64Str`: std's `Display`), the one-character string, the name of
a unit variant -/
def textOf (ext : Ext) : SVal → Option String
  | .str s => some s
  | .bool true => some "true"
  | .bool false => some "false"
  | .int _ v => some (toString v)
  | .f32 b => some (ext.f32Str b)
  | .f64 b => some (ext.f64Str b)
  | .char c => some (String.singleton (Char.ofNat c))
  | .unitVariant _ _ name => some name
  | _ => none

/-- is the column's time zone UTC (`None`: naive date-times)?  Status.md: "only no timezone or UTC is supported" -/
def isUtc : Option String → Bool
  | some t => t.toUpper == "UTC"
  | none => false

/-- **the parser specification**: the stored number a text denotes in a temporal / decimal column.  The parsers are
parameters (chrono's `FromStr`, `parse_span`, the decimal parser); what THEY must compute is C14 / C15
(`Props.C14.date_exact`, `timestamp_exact`, `specDuration`, `Spec.Decimal.expected`).  `Time32` is stored as `i32`:
a parsed value must fit. -/
def textValue (ext : Ext) : DataType → String → Option Int
  | .date32, s => (ext.parseDate false s).toOption
  | .date64, s => (ext.parseDate true s).toOption
  | .time32 u, s => (ext.parseTime u s).toOption.bind (fits .i32)
  | .time64 u, s => (ext.parseTime u s).toOption
  | .timestamp u tz, s => (ext.parseTimestamp u (isUtc tz) s).toOption
  | .duration u, s => (ext.parseDuration u s).toOption
  | .decimal128 p sc, s => (ext.parseDecimal p sc s).toOption
  | _, _ => none

/-! ### temporal and decimal columns -/

/-- `Date32` (days, `i32`) / `Time32` (`i32`): text, an `i32`, or an `i64` that fits -/
def i32Stored (ext : Ext) (dt : DataType) : SVal → Option LVal
  | .str s => (textValue ext dt s).map .int
  | .int .i32 v => some (.int v)
  | .int .i64 v => (fits .i32 v).map .int
  | _ => none

/-- `Date64` (milliseconds, `i64`) / `Time64` (`i64`): text, an `i32` or an `i64` -/
def i64Stored (ext : Ext) (dt : DataType) : SVal → Option LVal
  | .str s => (textValue ext dt s).map .int
  | .int .i32 v => some (.int v)
  | .int .i64 v => some (.int v)
  | _ => none

/-- `Timestamp(unit, tz)`: text or the `i64` count of units since the epoch -/
def timestampCell (ext : Ext) (dt : DataType) : SVal → Option LVal
  | .str s => (textValue ext dt s).map .int
  | .int .i64 v => some (.int v)
  | _ => none

/-- `Duration(unit)`: text (a span) or an integer count of units of any width; only a `u64` can exceed the `i64` storage -/
def durationCell (ext : Ext) (dt : DataType) : SVal → Option LVal
  | .str s => (textValue ext dt s).map .int
  | .int .u64 v => (fits .i64 v).map .int
  | .int _ v => some (.int v)
  | _ => none

/-- `Decimal128(p, s)`: text (truncated to the scale by the parser: documented lossy) or a float (documented lossy) -/
def decimalCell (ext : Ext) (p : Nat) (sc : Int) : SVal → Option LVal
  | .str s => (textValue ext (.decimal128 p sc) s).map .int
  | .f32 b => (ext.floatToDecimal p sc false b).toOption.map .int
  | .f64 b => (ext.floatToDecimal p sc true b).toOption.map .int
  | _ => none

/-! ### dictionaries -/

/-- what a string means at the VALUE type of a dictionary column (`build_builder` takes any value type; Status.md
documents Utf8 / LargeUtf8): the string types keep the string, the temporal and decimal types hold the PARSED value
(`Dictionary(Int8, Date32)` holds dates), a nested dictionary hands the string on to its own value type, every other
type gives strings no meaning -/
def dictValue (ext : Ext) : DataType → String → Option LVal
  | .utf8, s | .largeUtf8, s | .utf8View, s => some (.str (strBytes s))
  | .date32, s => (textValue ext .date32 s).map .int
  | .date64, s => (textValue ext .date64 s).map .int
  | .time32 u, s => (textValue ext (.time32 u) s).map .int
  | .time64 u, s => (textValue ext (.time64 u) s).map .int
  | .timestamp u tz, s => (textValue ext (.timestamp u tz) s).map .int
  | .duration u, s => (textValue ext (.duration u) s).map .int
  | .decimal128 p sc, s => (textValue ext (.decimal128 p sc) s).map .int
  | .dictionary _ v, s => dictValue ext v s
  | _, _ => none

/-! ### the leaf table -/

/-- **what a scalar call means in a column of data type `dt`** (`none`: nothing — the call must be refused).
Container types (lists, structs, maps, unions …) take no scalar calls. -/
def specLeaf (ext : Ext) (dt : DataType) (x : SVal) : Option LVal :=
  match dt with
  | .boolean => match x with | .bool b => some (.bool b) | _ => none
  | .int8 => intCell .i8 x | .int16 => intCell .i16 x | .int32 => intCell .i32 x | .int64 => intCell .i64 x
  | .uint8 => intCell .u8 x | .uint16 => intCell .u16 x | .uint32 => intCell .u32 x | .uint64 => intCell .u64 x
  | .float16 => f16Cell x
  | .float32 => f32Cell x
  | .float64 => f64Cell x
  | .date32 => i32Stored ext .date32 x
  | .date64 => i64Stored ext .date64 x
  | .time32 u => i32Stored ext (.time32 u) x
  | .time64 u => i64Stored ext (.time64 u) x
  | .timestamp u tz => timestampCell ext (.timestamp u tz) x
  | .duration u => durationCell ext (.duration u) x
  | .decimal128 p sc => decimalCell ext p sc x
  | .utf8 | .largeUtf8 | .utf8View => (textOf ext x).map fun s => .str (strBytes s)
  | .binary | .largeBinary | .binaryView => match x with | .bytes b => some (.bin b) | _ => none
  | .fixedSizeBinary n => match x with | .bytes b => if (b.length : Int) = n then some (.bin b) else none | _ => none
  | .dictionary _ v => (textOf ext x).bind (dictValue ext v)
  | .null => match x with | .unitStruct _ => some .null | _ => none
  | _ => none

/-! ### bytes given element by element, map keys -/

/-- an element of a byte sequence: an integer call of any width with a value in `0 ..= 255` (`Some` / newtype wrappers
are transparent) -/
def byteOf : SVal → Option UInt8
  | .int _ v => if 0 ≤ v ∧ v ≤ 255 then some (UInt8.ofNat v.toNat) else none
  | .some v => byteOf v
  | .newtypeStruct _ v => byteOf v
  | _ => none

/-- a binary value presented as a sequence / tuple: every element a byte -/
def bytesOf : SVals → Option Bytes
  | .nil => some []
  | .cons v r => do
    let b ← byteOf v
    let bs ← bytesOf r
    pure (b :: bs)

/-- the field name a map key presents to a STRUCT column: a string (`Some` / newtype wrappers are transparent) -/
def keyOf : SVal → Option String
  | .str s => some s
  | .some v => keyOf v
  | .newtypeStruct _ v => keyOf v
  | _ => none

/-! ### `Option` → outcome -/

/-- the one error of the leaf specification: the call has no meaning in the column -/
def undefinedLeaf {α} : R α := fail "the value has no representation in the column"

def liftO {α} : Option α → R α
  | some a => .ok a
  | none => undefinedLeaf

@[simp] theorem liftO_ok_iff {α} (o : Option α) (a : α) : liftO o = .ok a ↔ o = some a := by
  cases o <;> simp [liftO, undefinedLeaf, fail]

theorem liftO_isOk {α} (o : Option α) : (liftO o).isOk = o.isSome := by
  cases o <;> rfl

end SaModel.Spec
