import SaModel.Data.Arr
import SaModel.Read.DVal
/-
How a LEAF logical value is presented to a self-describing visitor (`deserialize_any`) — the specification's own
statement, written from the documentation and the Arrow type semantics; imports the data vocabulary only
(`Data/Arr.lean`, `Read/DVal.lean`: the visitor calls), NOT the reader model (`Read/Reader.lean`).
`Lemmas/C02PresentBridge.lean` proves that the reader model's `primAny` / `timeAny` and the leaf clauses of `Read.toD`
compute it.

* integer columns: a visitor call of the column's OWN width carrying the number (`Int8` → `visit_i8` … `UInt64` → `visit_u64`);
* `Float32` → `visit_f32`, `Float64` → `visit_f64`, same bits; `Float16` → `visit_f32` of the exact widening
  (Status.md: "Float16: can be serialized / deserialized from Rust `f32`"; `half::f16::to_f32`, `Read.f16ToF32`);
* `Date32` (days, 32 bit) → `visit_i32`, `Date64` (milliseconds, 64 bit) → `visit_i64`; `Time32` → `visit_i32`;
  `Time64`, `Duration`, `Timestamp` → `visit_i64`: the storage integer of the Arrow type.
-/
namespace SaModel.Spec
open SaModel SaModel.Read

/-- the Rust integer type in which an integer-backed primitive column is presented (`none`: a float column) -/
def presentedIntTy : PrimTy → Option IntTy
  | .int8 => some .i8 | .int16 => some .i16 | .int32 => some .i32 | .int64 => some .i64
  | .uint8 => some .u8 | .uint16 => some .u16 | .uint32 => some .u32 | .uint64 => some .u64
  | .date32 => some .i32 | .date64 => some .i64
  | .float16 | .float32 | .float64 => none

/-- a slot of a primitive column, as `deserialize_any` presents it -/
def presentPrim (ty : PrimTy) (x : Int) : DVal :=
  match presentedIntTy ty with
  | some t => .int t x
  | none =>
    match ty with
    | .float64 => .f64 x
    | .float16 => .f32 (f16ToF32 x)
    | _ => .f32 x

/-- a slot of a `Time32` / `Time64` / `Duration` column: the storage integer (`i32` for Time32, `i64` otherwise) -/
def presentTime : TimeTy → Int → DVal
  | .time32, x => .int .i32 x
  | .time64, x => .int .i64 x
  | .duration, x => .int .i64 x

/-- an element of a binary column read as a sequence: a `u8` -/
def presentByte (b : UInt8) : DVal := .int .u8 b.toNat

end SaModel.Spec
