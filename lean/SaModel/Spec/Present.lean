import SaModel.Basic.Outcome
import SaModel.Basic.Float
import SaModel.Data.Arr
import SaModel.Data.DVal
import SaModel.Spec.Decode
/-
READER-SIDE SPECIFICATION — what a read of a LOGICAL VALUE (`Spec.decode`) gives, for every serde request.

Written from the crate's documentation and the serde data model, NOT from the reader model: this file imports `Data/*`,
`Basic/*` and `Spec/Decode.lean` only (nothing of `Read/*`, nothing of `Codec/*`).  `Lemmas/C02PresentBridge*.lean` prove that
the functions the C02 / C05 theorems were stated with — `Read.toD`, `Read.castLeaf`, `Read.castScalar`, `Read.cast` (which call
the reader model's `primAny`, `timeAny`, `u8As`, `dateRepr` …) — compute these tables, cell by cell, and restate the headline
theorems against them (`Props.C02.read_any_present`, `read_typed_present`, `typed_present_total`).

  `presentAny c a lv`       what `deserialize_any` hands to the visitor
  `presentLeaf c t k`       a scalar request `t` (`bool`, `i8` … `u64`, `f32`, `f64`, `char`, `String`, `&str`, `&[u8]`, `ByteBuf`,
                            `()`) at a leaf value of kind `k`: the value of the requested Rust type, or `fails`
  `typedRead c t a lv`      every request (scalars, `Option`, newtype, `Vec`, tuples, maps, structs by field name, enums, any,
                            `IgnoredAny`; nested to any depth)

Sources (serde_arrow/Status.md "Arrow data types" / "Rust types", Changes.md, the statement of C05, the serde data model):
* INTEGERS.  `i8` … `u64` ↔ `Int8` … `UInt64`: a requested integer type gets the NUMBER, whenever it lies in the range of the
  REQUESTED type — the column width does not matter; outside: the read fails (C05: "integers out of range in both directions").
* `bool` from integer columns: "Add support to serialize / deserialize `bool` from integer arrays" (Changes.md 0.12.0): 0 is
  `false`, 1 is `true`; any other number is not a `bool`: the read fails (C05: never "silently altered").  [The crate answers
  `true` for every non-zero number: known finding #24.]
* `char`: "serialized as u32" (Status.md): read back from the number; a number that is not a `u32` or not a Unicode scalar value
  (surrogates, > 0x10FFFF) fails (C05: "invalid code points").
* FLOATS.  `Float32` ↔ `f32`, `Float64` ↔ `f64` bit for bit; "Float16: can be serialized / deserialized from Rust `f32`": the
  exact widening.  A wider request (`f64` from `Float16` / `Float32`) is the exact widening; `f32` from `Float64` is the
  documented lossy "float narrowing" (C05): the nearest `f32`, ties to even (`Basic/Float.lean`).  No integer ↔ float reads.
* TEMPORAL columns.  Status.md, chrono / jiff sections: `NaiveDate` / `jiff::Date` ↔ `Date32`, `NaiveTime` / `jiff::Time` ↔
  `Time32` / `Time64`, `NaiveDateTime` / `jiff::DateTime` ↔ `Timestamp(.., None)`, `DateTime<Utc>` / `jiff::Timestamp` ↔
  `Timestamp(.., Some("UTC"))`, `jiff::Span` / `SignedDuration` ↔ `Duration`: "is serialized / deserialized as strings" — a
  string request gets the TEXT of the value.  The texts are functions of chrono / of the crate's own formatters: the parameter
  `TextCodec` (their correctness is C14 / C15); a value the formatter refuses (outside chrono's date range, a time of day < 0 or
  ≥ 24 h) makes the read fail.  "With `chrono::serde::ts_microseconds`: is serialized / deserialized as `i64`": an integer
  request of the storage kind gets the stored number.
* `Decimal128`: "`Decimal128` arrays are always deserialized as string" — a string request gets the decimal text, `deserialize_any`
  presents the text; no other request is answered.
* STRINGS.  `Utf8` / `LargeUtf8` / `Utf8View` ↔ `String`, `&str` ("Allow to perform zero-copy deserialization from arrow arrays",
  Changes.md 0.11.0: borrowed from the array); `Dictionary(_, Utf8 | LargeUtf8)`: the string behind the key; "enums without
  data as strings": a unit variant by its name.  A text the reader CREATES (temporal, decimal) cannot be borrowed: `&str` /
  `&[u8]` requests fail there.
* BINARY.  `Binary` / `LargeBinary` / `BinaryView` / `FixedSizeBinary` ↔ `&[u8]` (borrowed), `ByteBuf`, `Vec<u8>` (a sequence of `u8`).
* `Option<T>`: `None` exactly at a null slot.  "`()`: serialized as a missing value, `Option<()>` is always deserialized as `None`".
  A null slot read into anything that is not an `Option` (and not `()` at a `Null` column) fails (C05: never "substitutes a …
  default").  [Container columns return the hidden child data there: known finding #23.]
* `struct S {..}` by field NAME from a `Struct` column (a field without column: `None` for `Option`, else "a missing required
  field" fails); tuples by position; `Vec<T>` from `List` / `LargeList` / `FixedSizeList`; maps from `Map` columns and from
  `Struct` columns (field names as keys); enums from dense `Union` columns (variant by name, or by index).

WHICH requests a column answers at all beyond the pairs named above (Boolean as an integer 0 / 1; `Date32` / `Date64` / `Time32` /
`Time64` as `i32` and `i64`, `Duration` / `Timestamp` as `i64` only; temporal texts as `ByteBuf`; a `Utf8` string as `ByteBuf`
but not a dictionary string) is not in the prose documentation: these rows are marked `[offer matrix]` below; the matrix of
the crate is read from the sources by the translated obligation `Props/C02Gen.lean` (`gen_reader_matrix`).  WHAT an answered
request hands over is this file.
-/
namespace SaModel.Spec
open SaModel SaModel.Read

/-! ### leaf renderings of `deserialize_any` (stated first, used below) -/

/-- the Rust integer type in which an integer-backed primitive column is presented (`none`: a float column) -/
def presentedIntTy : PrimTy → Option IntTy
  | .int8 => some .i8 | .int16 => some .i16 | .int32 => some .i32 | .int64 => some .i64
  | .uint8 => some .u8 | .uint16 => some .u16 | .uint32 => some .u32 | .uint64 => some .u64
  | .date32 => some .i32 | .date64 => some .i64
  | .float16 | .float32 | .float64 => none

/-- a slot of a primitive column, as `deserialize_any` presents it: integer columns a visitor call of the column's OWN width;
`Float32` → `visit_f32`, `Float64` → `visit_f64`, same bits; `Float16` → `visit_f32` of the exact widening; `Date32` (days,
32 bit) → `visit_i32`, `Date64` (milliseconds, 64 bit) → `visit_i64` -/
def presentPrim (ty : PrimTy) (x : Int) : DVal :=
  match presentedIntTy ty with
  | some t => .int t x
  | none =>
    match ty with
    | .float64 => .f64 x
    | .float16 => .f32 (f16ToF32 x)
    | _ => .f32 x

/-- a slot of a `Time32` / `Time64` / `Duration` column: the storage integer (`i32` for Time32, `i64` otherwise) -/
def presentTime : TimeTy → Int → DVal
  | .time32, x => .int .i32 x
  | .time64, x => .int .i64 x
  | .duration, x => .int .i64 x

/-- an element of a binary column read as a sequence: a `u8` -/
def presentByte (b : UInt8) : DVal := .int .u8 b.toNat

/-! ### the texts of temporal and decimal values: functions of other crates / of the codecs of C14 and C15 -/

/-- the text of a temporal / decimal value (chrono's `Display` of `NaiveDate` / `NaiveTime` / `NaiveDateTime` / `DateTime<Utc>`,
the crate's `format_arrow_duration_as_span`, `format_decimal`): parameters of the specification; `none` = the formatter refuses
the value.  The instance of the reader model is `Read.readCodec` (`Read/PresentCodec.lean`) (`Codec/*.lean`; what THOSE compute is C14 / C15). -/
structure TextCodec where
  date : Bool → Int → Option Bytes := fun _ _ => none                 -- `true`: Date64 (milliseconds), `false`: Date32 (days)
  time : TimeUnit → Int → Option Bytes := fun _ _ => none             -- time of day in units
  timestamp : TimeUnit → Bool → Int → Option Bytes := fun _ _ _ => none   -- units since the epoch; `true`: UTC ("…Z"), `false`: naive
  duration : TimeUnit → Int → Bytes := fun _ _ => []                  -- an ISO 8601 span, total
  decimal : Int → Int → Bytes := fun _ _ => []                        -- scale, unscaled value; total on i128 × i8

/-- Status.md: "only no timezone or UTC is supported"; the zone name is compared case-insensitively -/
def zoneIsUtc : Option String → Bool
  | some tz => tz.toLower == "utc"
  | none => false

/-! ### outcomes of the specification -/

/-- what the specification says about one (request, column, value) cell -/
inductive Demand (α : Type) where
  | value (a : α)     -- the read must return exactly this
  | fails             -- the read must fail
  | unclaimed         -- no claim: ONLY a by-name struct read where field names repeat (`byName`)
deriving Repr, DecidableEq

namespace Demand
variable {α β : Type}

def map (f : α → β) : Demand α → Demand β
  | .value a => .value (f a)
  | .fails => .fails
  | .unclaimed => .unclaimed

def bind (x : Demand α) (f : α → Demand β) : Demand β :=
  match x with
  | .value a => f a
  | .fails => .fails
  | .unclaimed => .unclaimed

/-- two parts of one read: a failing part makes the whole read fail; otherwise an unclaimed part leaves the whole unclaimed -/
def both : Demand α → Demand β → Demand (α × β)
  | .fails, _ => .fails
  | _, .fails => .fails
  | .value a, .value b => .value (a, b)
  | _, _ => .unclaimed

/-- a first part and the remaining parts -/
def cons (x : Demand α) (rest : Demand (List α)) : Demand (List α) := (both x rest).map fun p => p.1 :: p.2

def all : List (Demand α) → Demand (List α)
  | [] => .value []
  | x :: xs => cons x (all xs)

def ofOption : Option α → Demand α
  | some a => .value a
  | none => .fails

end Demand

/-- the child of a union column with type id `t` -/
def variantOf : ArrUFields → Int → Option (FieldMeta × Arr)
  | .nil, _ => none
  | .cons i fm a r, t => if i == t then some (fm, a) else variantOf r t

/-! ### `deserialize_any` — the self-describing presentation of a logical value

`Option`-like: a null slot is `visit_none`, every other slot is presented directly (no `visit_some` wrapper); integers in the
column's own width; temporal columns as their storage integer (`presentPrim`, `presentTime`; a Timestamp as `i64`); a
Decimal128 as its text ("always deserialized as string"; created on the fly: transient); strings and binary borrowed from the
array; a struct as a map from the field names; lists as sequences; maps as maps; a union value as the enum `name(payload)`. -/
mutual
def presentAny (c : TextCodec) : Arr → LVal → DVal
  | _, .null => .none
  | _, .bool b => .bool b
  | .prim ty _ _, .int x | .prim ty _ _, .float x => presentPrim ty x
  | .time ty _ _ _, .int x => presentTime ty x
  | .timestamp _ _ _ _, .int x => .int .i64 x
  | .decimal128 _ s _ _, .int x => .str .transient (c.decimal s x)
  | _, .str b => .str .borrowed b
  | _, .bin b => .bytes .borrowed b
  | .struct _ _ fs, .struct lfs => .map (presentFields c fs lfs)
  | .list _ _ _ _ el, .list items | .fixedSizeList _ _ _ _ el, .list items => .seq (presentItems c el items)
  | .map _ _ _ ks vs, .map es => .map (presentEntries c ks vs es)
  | .union _ _ fs, .union t v =>
    match variantOf fs t with                                   -- the variant with that type id: its name and its payload
    | some (fm, child) => .enum (.str .transient (strBytes fm.name)) (presentAny c child v)
    | none => .none
  | _, _ => .none
def presentItems (c : TextCodec) : Arr → LVals → DVals
  | _, .nil => .nil
  | el, .cons v r => .cons (presentAny c el v) (presentItems c el r)
def presentFields (c : TextCodec) : ArrFields → LFields → DEntries
  | .cons fm a rest, .cons _ v lrest => .cons (.str .transient (strBytes fm.name)) (presentAny c a v) (presentFields c rest lrest)
  | _, _ => .nil
def presentEntries (c : TextCodec) : Arr → Arr → LEntries → DEntries
  | _, _, .nil => .nil
  | ks, vs, .cons k v r => .cons (presentAny c ks k) (presentAny c vs v) (presentEntries c ks vs r)
end

/-! ### leaf values and scalar requests -/

/-- the kind of a non-null leaf value: the logical value together with what the column type says about it -/
inductive SlotKind where
  | truth (b : Bool)                                         -- Boolean
  | number (x : Int)                                         -- Int8 … UInt64
  | date (is64 : Bool) (x : Int)                             -- Date32 (days) / Date64 (milliseconds)
  | timeOfDay (u : TimeUnit) (x : Int)                       -- Time32 / Time64
  | span (u : TimeUnit) (x : Int)                            -- Duration
  | instant (u : TimeUnit) (utc : Bool) (x : Int)            -- Timestamp, naive or UTC
  | decimal (scale : Int) (x : Int)                          -- Decimal128
  | half (bits : Int) | single (bits : Int) | double (bits : Int)   -- Float16 / Float32 / Float64
  | text (viaDictionary : Bool) (utf8 : Bytes)               -- Utf8 / LargeUtf8 / Utf8View, or the string behind a dictionary key
  | binary (b : Bytes)                                       -- Binary / LargeBinary / BinaryView / FixedSizeBinary
  | other                                                    -- null, containers, a value that does not fit its column
deriving Repr, DecidableEq

def intWidth : PrimTy → Bool
  | .int8 | .int16 | .int32 | .int64 | .uint8 | .uint16 | .uint32 | .uint64 => true
  | _ => false

/-- `.bool` / `.int` / `.float` values are read through the column type; `.str` / `.bin` values carry their kind themselves (a
dictionary column is remembered: it answers fewer requests) -/
def leafKind : Arr → LVal → SlotKind
  | .boolean _ _ _, .bool b => .truth b
  | .prim ty _ _, .int x =>
    if intWidth ty then .number x
    else match ty with
      | .date32 => .date false x
      | .date64 => .date true x
      | _ => .other
  | .prim ty _ _, .float x =>
    (match ty with
     | .float16 => .half x
     | .float32 => .single x
     | .float64 => .double x
     | _ => .other)
  | .time ty u _ _, .int x => (match ty with | .duration => .span u x | _ => .timeOfDay u x)
  | .timestamp u tz _ _, .int x => .instant u (zoneIsUtc tz) x
  | .decimal128 _ s _ _, .int x => .decimal s x
  | .dictionary _ _, .str b => .text true b
  | _, .str b => .text false b
  | _, .bin b => .binary b
  | _, _ => .other

/-- a Unicode scalar value -/
def isUnicodeScalar (c : Nat) : Bool := c < 0xD800 || (0xE000 ≤ c && c ≤ 0x10FFFF)

/-- a NUMBER read as an integer type (by value, in the range of the requested type), as `bool` (0 / 1), as `char` (a `u32`
that is a Unicode scalar value) -/
def numberAs (t : Target) (x : Int) : Demand DVal :=
  match t with
  | .int ty => if ty.inRange x then .value (.int ty x) else .fails
  | .bool => if x == 0 then .value (.bool false) else if x == 1 then .value (.bool true) else .fails
  | .char => if IntTy.u32.inRange x && isUnicodeScalar x.toNat then .value (.char x.toNat) else .fails
  | _ => .fails

/-- the stored number of a temporal column requested as one of the integer types `offered` for it [offer matrix] -/
def storedAs (offered : List IntTy) (ty : IntTy) (x : Int) : Demand DVal :=
  if offered.contains ty then (if ty.inRange x then .value (.int ty x) else .fails) else .fails

/-- a text the reader CREATES (temporal, decimal): owned — `String`, and `ByteBuf` where `asBytes` [offer matrix]; never borrowed -/
def createdText (asBytes : Bool) (t : Target) (text : Option Bytes) : Demand DVal :=
  match t with
  | .string => (Demand.ofOption text).map (.str .owned)
  | .byteBuf => if asBytes then (Demand.ofOption text).map (.bytes .owned) else .fails
  | _ => .fails

/-- `f64 → f32`: the documented lossy narrowing (nearest, ties to even), on bit patterns -/
def narrow (bits : Int) : Int := Int.ofNat (Float.convert Float.f64 Float.f32 (bits.toNat % 18446744073709551616))

/-- **the leaf table**: a scalar request at a non-null leaf value -/
def presentLeaf (c : TextCodec) (t : Target) : SlotKind → Demand DVal
  | .truth b =>
    (match t with
     | .bool => .value (.bool b)
     | .int ty => .value (.int ty (if b then 1 else 0))          -- [offer matrix] a Boolean as the number 0 / 1
     | _ => .fails)
  | .number x => numberAs t x
  | .date is64 x =>
    (match t with
     | .int ty => storedAs [.i32, .i64] ty x
     | _ => createdText true t (c.date is64 x))
  | .timeOfDay u x =>
    (match t with
     | .int ty => storedAs [.i32, .i64] ty x
     | _ => createdText true t (c.time u x))
  | .span u x =>
    (match t with
     | .int ty => storedAs [.i64] ty x
     | _ => createdText true t (some (c.duration u x)))
  | .instant u utc x =>
    (match t with
     | .int ty => storedAs [.i64] ty x
     | _ => createdText true t (c.timestamp u utc x))
  | .decimal s x => createdText false t (some (c.decimal s x))    -- "always deserialized as string"
  | .half bits =>
    (match t with
     | .f32 => .value (.f32 (f16ToF32 bits))
     | .f64 => .value (.f64 (f32ToF64 (f16ToF32 bits)))
     | _ => .fails)
  | .single bits =>
    (match t with
     | .f32 => .value (.f32 bits)
     | .f64 => .value (.f64 (f32ToF64 bits))
     | _ => .fails)
  | .double bits =>
    (match t with
     | .f32 => .value (.f32 (narrow bits))
     | .f64 => .value (.f64 bits)
     | _ => .fails)
  | .text viaDictionary b =>
    (match t with
     | .string => .value (.str .owned b)
     | .str => .value (.str .borrowed b)
     | .byteBuf => if viaDictionary then .fails else .value (.bytes .owned b)   -- [offer matrix]
     | _ => .fails)
  | .binary b =>
    (match t with
     | .bytes => .value (.bytes .borrowed b)
     | .byteBuf => .value (.bytes .owned b)
     | _ => .fails)
  | .other => .fails

def isNullColumn : Arr → Bool
  | .null _ => true
  | _ => false

def isNullValue : LVal → Bool
  | .null => true
  | _ => false

/-- a scalar request at any value: a null slot fails, except `()` / a unit struct at a `Null` column -/
def presentScalar (c : TextCodec) (t : Target) (a : Arr) (lv : LVal) : Demand DVal :=
  match lv with
  | .null =>
    (match t with
     | .unit | .unitStruct => if isNullColumn a then .value .unit else .fails
     | _ => .fails)
  | lv => presentLeaf c t (leafKind a lv)

/-! ### containers -/

def binaryColumn : Arr → Bool
  | .bytes ty _ _ _ => !isUtf8Ty ty
  | .bytesView ty _ _ _ => ty != .utf8View
  | .fixedSizeBinary _ _ _ => true
  | _ => false

def textColumn : Arr → Bool
  | .bytes ty _ _ _ => isUtf8Ty ty
  | .bytesView ty _ _ _ => ty == .utf8View
  | .dictionary _ _ => true
  | _ => false

/-- one byte of a binary value read as an element of a sequence: a `u8` under `deserialize_any`, by value into any integer
type; nothing else -/
def byteAs (t : Target) (b : UInt8) : Demand DVal :=
  match t with
  | .any => .value (presentByte b)
  | .ignored => .value .ignored
  | .int ty => if ty.inRange b.toNat then .value (.int ty b.toNat) else .fails
  | _ => .fails

def itemsRead (f : LVal → Demand DVal) : LVals → Demand (List DVal)
  | .nil => .value []
  | .cons v r => Demand.cons (f v) (itemsRead f r)

def entriesRead (fk fv : LVal → Demand DVal) : LEntries → Demand (List (DVal × DVal))
  | .nil => .value []
  | .cons k v r => Demand.cons (Demand.both (fk k) (fv v)) (entriesRead fk fv r)

/-- "enums without data as strings": the unit variant of that name -/
def unitVariantNamed : TVariants → Bytes → Demand DVal
  | .nil, _ => .fails
  | .cons n k rest, s =>
    if strBytes n == s then
      (match k with
       | .unit => .value (.enum (.str .transient (strBytes n)) .unit)
       | _ => .fails)
    else unitVariantNamed rest s

/-- a struct field NAME as a map key: a string (`String`, `ByteBuf`, `deserialize_any`), ignored, a `char` when it is one
character, the unit variant of that name; a name cannot be borrowed and is nothing else -/
def nameAsKey (k : Target) (name : String) : Demand DVal :=
  match k with
  | .any => .value (.str .transient (strBytes name))
  | .ignored => .value .ignored
  | .string => .value (.str .owned (strBytes name))
  | .byteBuf => .value (.bytes .owned (strBytes name))
  | .char => (match name.toList with | [ch] => .value (.char ch.toNat) | _ => .fails)
  | .enum byIndex vs => if byIndex then .fails else unitVariantNamed vs (strBytes name)
  | _ => .fails

/-- the fields of a struct value as map entries -/
def fieldsAsEntries (key : String → Demand DVal) (f : Arr → LVal → Demand DVal) : ArrFields → LFields → Demand (List (DVal × DVal))
  | .cons fm a rest, .cons _ lv lrest => Demand.cons (Demand.both (key fm.name) (f a lv)) (fieldsAsEntries key f rest lrest)
  | _, _ => .value []

def columnNames : ArrFields → List String
  | .nil => []
  | .cons fm _ r => fm.name :: columnNames r

def targetNames : TFields → List String
  | .nil => []
  | .cons n _ r => n :: targetNames r

def distinct : List String → Bool
  | [] => true
  | x :: xs => !xs.contains x && distinct xs

/-- the column and the value of the struct field called `name` -/
def childNamed : ArrFields → LFields → String → Option (Arr × LVal)
  | .cons fm a rest, .cons _ v lrest, name => if fm.name == name then some (a, v) else childNamed rest lrest name
  | _, _, _ => none

/-- tuples and tuple structs: the fields of a `Struct` column by position -/
def byPosition (f : ArrFields → LFields → Demand (List DVal)) (a : Arr) (lv : LVal) : Demand DVal :=
  match a, lv with
  | .struct _ _ fs, .struct lfs => (f fs lfs).map fun ds => .seq (DVals.ofList ds)
  | _, _ => .fails

/-- structs by field name; where names repeat (among the target's fields — no Rust type — or among the children of the
column) reading by name has no meaning: no claim -/
def byName (tnames : List String) (f : ArrFields → LFields → Demand (List (DVal × DVal))) (a : Arr) (lv : LVal) : Demand DVal :=
  match a, lv with
  | .struct _ _ fs, .struct lfs =>
    if distinct (columnNames fs) && distinct tnames then (f fs lfs).map fun es => .map (DEntries.ofList es) else .unclaimed
  | _, _ => .fails

def byteOfElem : DVal → UInt8
  | .int _ v => UInt8.ofNat v.toNat
  | _ => 0

/-! ### every request -/

mutual
/-- **what a typed read of the logical value `lv` of a slot of column `a` gives**, for the requested Rust type `t` -/
def typedRead (c : TextCodec) : Target → Arr → LVal → Demand DVal
  | .any, a, lv => .value (presentAny c a lv)
  | .ignored, _, _ => .value .ignored
  | .option t, a, lv =>
    match lv with
    | .null => .value .none                                   -- `None` exactly at a null slot
    | lv => (typedRead c t a lv).map .some
  | .newtype t, a, lv => typedRead c t a lv
  | .seq t, a, lv =>
    match a, lv with
    | .list _ _ _ _ el, .list items | .fixedSizeList _ _ _ _ el, .list items =>
      (itemsRead (fun v => typedRead c t el v) items).map fun ds => .seq (DVals.ofList ds)
    | a, .bin b =>                                             -- `Vec<u8>` from a binary column
      if binaryColumn a then (Demand.all (b.map (byteAs t))).map fun ds => .seq (DVals.ofList ds) else .fails
    | _, _ => .fails
  | .tuple ts, a, lv => byPosition (fun fs lfs => positional c ts fs lfs) a lv
  | .tupleStruct ts, a, lv => byPosition (fun fs lfs => positional c ts fs lfs) a lv
  | .map k v, a, lv =>
    match a, lv with
    | .struct _ _ fs, .struct lfs =>
      (fieldsAsEntries (nameAsKey k) (fun ch w => typedRead c v ch w) fs lfs).map fun es => .map (DEntries.ofList es)
    | .map _ _ _ ks vs, .map es =>
      (entriesRead (fun w => typedRead c k ks w) (fun w => typedRead c v vs w) es).map fun es => .map (DEntries.ofList es)
    | _, _ => .fails
  | .struct tfs, a, lv => byName (targetNames tfs) (fun fs lfs => named c tfs fs lfs) a lv
  | .enum byIndex vs, a, lv =>
    match a, lv with
    | .union _ _ fs, .union t v =>
      (match variantOf fs t with
       | none => .fails
       | some (fm, child) => variantRead c vs (if byIndex then some t.toNat else none) fm.name child v)
    | a, .str b => if textColumn a && !byIndex then unitVariantNamed vs b else .fails
    | _, _ => .fails
  | .byteBuf, a, lv =>
    match a, lv with
    | .list _ _ _ _ el, .list items =>                         -- a `ByteBuf` from a list column: every element by value as `u8`
      (itemsRead (fun v => presentScalar c (.int .u8) el v) items).map fun ds => .bytes .owned (ds.map byteOfElem)
    | a, lv => presentScalar c .byteBuf a lv
  | .unit, a, lv => presentScalar c .unit a lv
  | .unitStruct, a, lv => presentScalar c .unitStruct a lv
  | .bool, a, lv => presentScalar c .bool a lv
  | .int ty, a, lv => presentScalar c (.int ty) a lv
  | .f32, a, lv => presentScalar c .f32 a lv
  | .f64, a, lv => presentScalar c .f64 a lv
  | .char, a, lv => presentScalar c .char a lv
  | .string, a, lv => presentScalar c .string a lv
  | .str, a, lv => presentScalar c .str a lv
  | .bytes, a, lv => presentScalar c .bytes a lv
/-- element `i` of a tuple from field `i` of the struct; a tuple longer than the struct fails; surplus fields are not part of
a tuple -/
def positional (c : TextCodec) : Targets → ArrFields → LFields → Demand (List DVal)
  | .nil, _, _ => .value []
  | .cons t rest, .cons _ a frest, .cons _ v lrest => Demand.cons (typedRead c t a v) (positional c rest frest lrest)
  | .cons _ _, _, _ => .fails
/-- every field of the target from the struct field of that name; a field without column is `None` for an `Option`, else the
read fails ("a missing required field") -/
def named (c : TextCodec) : TFields → ArrFields → LFields → Demand (List (DVal × DVal))
  | .nil, _, _ => .value []
  | .cons n t rest, fs, lfs =>
    Demand.cons
      ((match childNamed fs lfs n with
        | some (a, v) => typedRead c t a v
        | none => if t.isOption then .value .none else .fails).map fun d => (DVal.str .transient (strBytes n), d))
      (named c rest fs lfs)
/-- the variant of the target selected by the column's variant: by name (`sel = none`) or by position -/
def variantRead (c : TextCodec) : TVariants → Option Nat → String → Arr → LVal → Demand DVal
  | .nil, _, _, _, _ => .fails
  | .cons n k rest, sel, name, child, v =>
    if (match sel with | some i => i == 0 | none => n == name) then
      (payloadRead c k child v).map fun p => .enum (.str .transient (strBytes n)) p
    else variantRead c rest (sel.map (· - 1)) name child v
def payloadRead (c : TextCodec) : VKind → Arr → LVal → Demand DVal
  | .unit, child, v => if isNullColumn child && isNullValue v then .value .unit else .fails
  | .newtype t, child, v => typedRead c t child v
  | .tuple ts, child, v => byPosition (fun fs lfs => positional c ts fs lfs) child v
  | .struct tfs, child, v => byName (targetNames tfs) (fun fs lfs => named c tfs fs lfs) child v
end

end SaModel.Spec
