import SaModel.Spec.SchemaOK
/-
Specification side of C09, rejection: WHICH JSON values denote a schema, and which schema — written from the
documentation of the schema format (docs of `SchemaLike::from_value`), not from the reader's control flow.

A value denotes a schema when it is a list of field values, or an object whose `fields` entry is one.  A field value is
an object with
* `name`: a string and `data_type`: a string, both required; none of the six known keys twice;
* `nullable`: absent (= false) or a boolean;
* `strategy`: absent, null, or one of the four strategy names;
* `metadata`: absent or an object whose values are all strings — read as a HashMap (a later duplicate wins);
* a strategy given both as `strategy` and inside `metadata` is not a schema;
* `children`: absent (= none) or a list of field values;
* the `data_type` string, read next to the children, names a data type (`Dsl.readType`: the type-name grammar, known
  names only, the right number of arguments and of children, units, integer ranges — `dsl_roundtrip`, `gen_reader_*`,
  `C09_rejects_arity`), `Null` fields are nullable, and the resulting field is a VALID schema in the sense of the
  explicit predicate `validField` (`Spec/SchemaOK.lean`: strategy admissible for the type, `Time32` with seconds or
  milliseconds and `Time64` with micro- or nanoseconds only, no negative sizes, dictionary keys integers and values
  strings, map entries a two-field struct, no `Interval` / `RunEndEncoded`).
Anything else denotes nothing and has to be rejected.
-/
namespace SaModel.SchemaJson
open SaModel SaModel.Dsl

def strOf : Option JVal → Option String
  | some (.str s) => some s
  | _ => none

def nullableDenotes : Option JVal → Option Bool
  | none => some false
  | some (.bool b) => some b
  | _ => none

def strategyDenotes : Option JVal → Option (Option Strategy)
  | none => some none
  | some .null => some none
  | some (.str s) =>
    if s = "InconsistentTypes" then some (some .inconsistentTypes)
    else if s = "TupleAsStruct" then some (some .tupleAsStruct)
    else if s = "MapAsStruct" then some (some .mapAsStruct)
    else if s = "UnknownVariant" then some (some .unknownVariant)
    else none
  | some _ => none

/-- the entries of an object whose values are all strings -/
def objStrings : JObj → Option (List (String × String))
  | .nil => some []
  | .cons k (.str v) r => (objStrings r).map ((k, v) :: ·)
  | .cons _ _ _ => none

def metadataDenotes : Option JVal → Option Metadata
  | none => some []
  | some (.obj m) => (objStrings m).map canonMeta
  | some _ => none

/-- the strategy is kept in the metadata under the reserved key -/
def withStrategy (md : Metadata) : Option Strategy → Metadata
  | none => md
  | some s => insertMeta STRATEGY_KEY s.toString md

/-- one field from its parts -/
def fieldDenotes (name : String) (ty : String) (nullable : Bool) (strategy : Option Strategy) (md : Metadata)
    (children : List Field) : Option Field :=
  if hasKey md STRATEGY_KEY && strategy.isSome then none
  else match readType ty.toList children with
    | .error _ => none
    | .ok dt =>
      let f := Field.mk name dt (normNullable dt nullable) (withStrategy md strategy)
      if validField f then some f else none

mutual
/-- the field a JSON value denotes, if any -/
def denoteField : JVal → Option Field
  | .obj o =>
    if knownKeys.any (fun k => o.count k > 1) then none
    else (strOf (o.get? "name")).bind fun name =>
      (strOf (o.get? "data_type")).bind fun ty =>
      (nullableDenotes (o.get? "nullable")).bind fun nullable =>
      (strategyDenotes (o.get? "strategy")).bind fun strategy =>
      (metadataDenotes (o.get? "metadata")).bind fun md =>
      (denoteChildren o).bind fun children =>
      fieldDenotes name ty nullable strategy md children
  | _ => none
/-- the fields under the (first) `children` key; no key, no children -/
def denoteChildren : JObj → Option (List Field)
  | .nil => some []
  | .cons k v r =>
    if k = "children" then
      match v with
      | .arr vs => denoteList vs
      | _ => none
    else denoteChildren r
def denoteList : JVals → Option (List Field)
  | .nil => some []
  | .cons v r => (denoteField v).bind fun f => (denoteList r).bind fun fs => some (f :: fs)
end

/-- the value under the `fields` key of the object form: every such entry has to be a list of fields, the last one
counts (serde_json objects have no duplicate keys) -/
def denoteFieldsKey : JObj → Option (Option (List Field))
  | .nil => some none
  | .cons k v r =>
    if k = "fields" then
      match v with
      | .arr vs => (denoteList vs).bind fun fs => (denoteFieldsKey r).bind fun later => some (some (later.getD fs))
      | _ => none
    else denoteFieldsKey r

/-- the schema a JSON value denotes, if any -/
def denoteSchema : JVal → Option (List Field)
  | .arr vs => denoteList vs
  | .obj o => (denoteFieldsKey o).bind id
  | _ => none

/-- **the predicate of `C09_rejects`**: the value denotes a valid schema -/
def denotesSchema (j : JVal) : Bool := (denoteSchema j).isSome

end SaModel.SchemaJson
