import SaModel.Codec.SchemaJson
/-
Specification side of C09: the explicit, decidable domain `SchemaOK` on which a schema survives the JSON form
unchanged.  It is the conjunction of
* `validField`  — the field denotes a valid serde_arrow schema (an explicit structural predicate; what the crate is
  required to *accept*; anything else is required to be *rejected with an error*), and
* `reprField`   — the JSON form can express it (maps unsorted, unions dense with type ids 0,1,2,…, `Null` fields
  nullable, metadata in HashMap normal form).
-/
namespace SaModel.SchemaJson
open SaModel SaModel.Dsl

/-- how the metadata's strategy entry reads: absent, a known strategy, or junk -/
inductive StratClass where
  | absent
  | known (s : Strategy)
  | junk
deriving Repr, DecidableEq

def stratClass (m : Metadata) : StratClass :=
  match m.get? STRATEGY_KEY with
  | none => .absent
  | some s =>
    if s = "InconsistentTypes" then .known .inconsistentTypes
    else if s = "TupleAsStruct" then .known .tupleAsStruct
    else if s = "MapAsStruct" then .known .mapAsStruct
    else if s = "UnknownVariant" then .known .unknownVariant
    else .junk

def noStrat (m : Metadata) : Bool := stratClass m = .absent

def i32Max : Int := 2147483647

def isStruct2 : Field → Bool
  | .mk _ (.struct (.cons _ (.cons _ .nil))) _ _ => true
  | _ => false

mutual
/-- the field denotes a valid schema -/
def validField : Field → Bool
  | .mk _ dt _ m => validType m dt
def validType (m : Metadata) : DataType → Bool
  | .null => stratClass m = .absent || stratClass m = .known .inconsistentTypes || stratClass m = .known .unknownVariant
  | .struct fs =>
    (stratClass m = .absent || stratClass m = .known .mapAsStruct || stratClass m = .known .tupleAsStruct) && validFields fs
  | .fixedSizeBinary n => noStrat m && decide (0 ≤ n) && decide (n ≤ i32Max)
  | .time32 u => noStrat m && (u = .second || u = .millisecond)
  | .time64 u => noStrat m && (u = .microsecond || u = .nanosecond)
  | .decimal128 p s => noStrat m && decide (p ≤ 255) && decide (-128 ≤ s) && decide (s ≤ 127)
  | .list f => noStrat m && validField f
  | .largeList f => noStrat m && validField f
  | .fixedSizeList f n => noStrat m && decide (0 ≤ n) && decide (n ≤ i32Max) && validField f
  | .map e _ => noStrat m && isStruct2 e && validField e
  | .dictionary k v => noStrat m && isIntType k && isDictValueType v
  | .union us _ => noStrat m && validUFields us
  | .interval _ => false
  | .runEndEncoded _ _ => false
  | _ => noStrat m
def validFields : Fields → Bool
  | .nil => true
  | .cons f r => validField f && validFields r
def validUFields : UFields → Bool
  | .nil => true
  | .cons _ f r => validField f && validUFields r
end

/-- union type ids are idx, idx+1, … and stay within `i8` -/
def idsFrom : Nat → UFields → Bool
  | _, .nil => true
  | idx, .cons i _ r => decide (i = Int.ofNat idx) && decide (idx ≤ 127) && idsFrom (idx + 1) r

/-- a list of entries as a HashMap in normal form: later duplicates win, keys sorted -/
def canonMeta : Metadata → Metadata
  | [] => []
  | (k, v) :: r => let m := canonMeta r; if hasKey m k then m else insertMeta k v m

/-- metadata after splitting the strategy out and merging it back in -/
def metaRT (m : Metadata) : Metadata :=
  match m.get? STRATEGY_KEY with
  | none => canonMeta (nonStrategy m)
  | some s => insertMeta STRATEGY_KEY s (canonMeta (nonStrategy m))

def metaOK (m : Metadata) : Bool := metaRT m = m

mutual
/-- the JSON form can express the field -/
def reprField : Field → Bool
  | .mk _ dt nullable m => metaOK m && reprType nullable dt
def reprType (nullable : Bool) : DataType → Bool
  | .null => nullable
  | .struct fs => reprFields fs
  | .list f => reprField f
  | .largeList f => reprField f
  | .fixedSizeList f _ => reprField f
  | .map e sorted => !sorted && reprField e
  | .union us mode => mode = .dense && idsFrom 0 us && reprUFields us
  | _ => true
def reprFields : Fields → Bool
  | .nil => true
  | .cons f r => reprField f && reprFields r
def reprUFields : UFields → Bool
  | .nil => true
  | .cons _ f r => reprField f && reprUFields r
end

/-- the domain of the round-trip theorem -/
def schemaOK (f : Field) : Bool := validField f && reprField f

abbrev SchemaOK (f : Field) : Prop := schemaOK f = true

/-- the data-type level domain of `dsl_roundtrip`: parameters in range, expressible (no validity condition) -/
def typeOK : DataType → Bool
  | .fixedSizeBinary n => decide (-2147483648 ≤ n) && decide (n ≤ i32Max)
  | .fixedSizeList _ n => decide (-2147483648 ≤ n) && decide (n ≤ i32Max)
  | .decimal128 p s => decide (p ≤ 255) && decide (-128 ≤ s) && decide (s ≤ 127)
  | .map _ sorted => !sorted
  | .union us mode => mode = .dense && idsFrom 0 us
  | .interval _ => false
  | .runEndEncoded _ _ => false
  | _ => true

/-! ## blame: why a field is outside the domain (driver signatures) -/

mutual
def blameField : Field → Option String
  | .mk _ dt nullable m => if !metaOK m then some "Metadata/not-normal" else blameType nullable dt
def blameType (nullable : Bool) : DataType → Option String
  | .null => if nullable then none else some "Null/non-nullable"
  | .struct fs => blameFields fs
  | .list f => blameField f
  | .largeList f => blameField f
  | .fixedSizeList f _ => blameField f
  | .map e sorted => if sorted then some "Map/sorted" else blameField e
  | .union us mode =>
    if mode ≠ .dense then some "Union/sparse"
    else if !idsFrom 0 us then some "Union/type-ids"
    else blameUFields us
  | _ => none
def blameFields : Fields → Option String
  | .nil => none
  | .cons f r => (blameField f).orElse (fun _ => blameFields r)
def blameUFields : UFields → Option String
  | .nil => none
  | .cons _ f r => (blameField f).orElse (fun _ => blameUFields r)
end

end SaModel.SchemaJson
