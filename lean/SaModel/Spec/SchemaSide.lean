import SaModel.Spec.SchemaOK
/-
Specification side of C09, foreign field objects: two consequences of `validField` that are named on their own.

* `rangeField` — numeric parameters fit the Rust types (`i32` sizes, `u8` precision, `i8` scale).  True of every Rust
  value; a hypothesis of `C09_foreign_iff` / `validate_iff_valid` only because the model's `Field` carries unbounded
  integers (`validate_field` does not look at what the types already guarantee).
* `entriesField` — the `entries` field of every `Map` (at any depth), when it is a struct, carries no strategy a `Struct`
  field may not carry.
  Before `fix: validate_map_field validates the entries field itself` `validate_map_field` validated the two fields
  inside the entries struct but not the entries field itself, so a FOREIGN map field whose entries field was annotated
  with, say, `InconsistentTypes` or an unknown strategy name was accepted (the JSON form cannot produce one: its children
  go through `into_field`, which validates them) and `entriesField` was a second hypothesis of `C09_foreign_iff`.  Now it
  is what `validate_field` enforces (`entriesField_of_validate`, `C09_foreign_entries_refused`), the class on which the
  pinned and the repaired function coincide (`validateFieldPinned_eq`), and the driver's name for the failure signature.
-/
namespace SaModel.SchemaJson
open SaModel SaModel.Dsl

def i32Range (n : Int) : Bool := decide (-2147483648 ≤ n) && decide (n ≤ i32Max)

mutual
/-- every numeric parameter is a value of its Rust type -/
def rangeField : Field → Bool
  | .mk _ dt _ _ => rangeType dt
def rangeType : DataType → Bool
  | .fixedSizeBinary n => i32Range n
  | .decimal128 p s => decide (p ≤ 255) && decide (-128 ≤ s) && decide (s ≤ 127)
  | .struct fs => rangeFields fs
  | .list f => rangeField f
  | .largeList f => rangeField f
  | .fixedSizeList f n => i32Range n && rangeField f
  | .map e _ => rangeField e
  | .union us _ => rangeUFields us
  | _ => true
def rangeFields : Fields → Bool
  | .nil => true
  | .cons f r => rangeField f && rangeFields r
def rangeUFields : UFields → Bool
  | .nil => true
  | .cons _ f r => rangeField f && rangeUFields r
end

/-- the strategies `validate_struct_field` admits -/
def structStrat (m : Metadata) : Bool :=
  stratClass m = .absent || stratClass m = .known .mapAsStruct || stratClass m = .known .tupleAsStruct

/-- a struct field carries a strategy a struct may carry, or none (nothing is asked of other fields) -/
def entryStrat : Field → Bool
  | .mk _ (.struct _) _ m => structStrat m
  | _ => true

mutual
/-- the entries struct of every map (at any depth) carries a strategy a struct may carry, or none -/
def entriesField : Field → Bool
  | .mk _ dt _ _ => entriesType dt
def entriesType : DataType → Bool
  | .struct fs => entriesFields fs
  | .list f => entriesField f
  | .largeList f => entriesField f
  | .fixedSizeList f _ => entriesField f
  | .map e _ => entryStrat e && entriesField e
  | .union us _ => entriesUFields us
  | _ => true
def entriesFields : Fields → Bool
  | .nil => true
  | .cons f r => entriesField f && entriesFields r
def entriesUFields : UFields → Bool
  | .nil => true
  | .cons _ f r => entriesField f && entriesUFields r
end

end SaModel.SchemaJson
