import SaModel.Spec.TouchRange
/-
`touchEq t a a' i` — C17's "where the inconsistency is never touched, the correct values": the views `a` and `a'`
agree on what a read of target `t` at slot `i` LOOKS AT (the footprint of the read).  A relation on the data of the
two views, independent of the reader model; it follows the traversal of `touchOK` (Spec/TouchRange.lean):

* same constructor and type tags of every array that is visited (nothing is asked of arrays that are not);
* the row test: the same answer to "is slot `i` below the length" (`ltEq`); nothing else when it is not;
* the validity BIT of the visited slot (`bitEq`: the bit, or the same failure to read it) — for leaf columns always
  (every read of a leaf goes through its `get`), for struct / list / map / fixed-size-list columns only when the
  target is `Option` / `any` / `IgnoredAny` (the typed container reads never consult validity); a slot the bitmap
  marks null ends the comparison (`whenValid`);
* the content of a valid slot: the value / the bit of a boolean column; the offset PAIR and the byte SLICE it
  designates in the data buffer (`byteSlice`: equal slices, or both offsets designate none); the view descriptor and
  the bytes it designates (`viewSlice`); the slice `i*n … (i+1)*n-1` of a fixed-size binary column together with the
  same answer to "is the buffer divisible into rows of n bytes" (`fsbLen`);
* struct columns: the fields the target reads, at slot `i` — a struct target every field (those it names with the
  target of that name, the others the way serde skips them: `deserialize_any`), a tuple target the leading fields
  by position (names are not compared, surplus fields are not looked at), a map / any target every field;
* list / map / fixed-size-list columns: the offset pair (`n`), and every element of the designated range with the
  element target (`rangeEq`; an empty, negative or decreasing range designates no element);
* dictionary columns: the key slot and — for a valid, non-negative key — the value slot it designates;
* union columns: type id and offset of row `i`, the number of children, and the child at position `type id`: its
  name and its slot `offsets[i]` with the target of that variant (nothing when the target has no such variant).

Everything else may differ: other rows, other validity bits, bytes outside the designated slice, fields the target
does not read, children slots row `i` does not refer to, null slots' values.

It is EXACT for reads that succeed; for a read that fails it may ask for more than the read looked at, in four
ways: (1) the traversal is not cut at the first failing field / element; (2) a target the column's reader has no
method for (an error before any data is looked at) still compares the slot of a leaf column, the offset pair of a
list column and the head of a union column; (3) where an element range leaves the child (`e > lenOf el`: the read
fails there, `readAs_touch_in_range`) the children have to be equal as a whole — that keeps the evaluation bounded by
the size of the views, whatever lengths a corrupted view declares; (4) a dictionary key above i64::MAX (an error before
the values are looked at) still compares the value slot.

`SaModel/Props/C17.lean`: `untouched_ok` (`touchEq t a a' i = true → readAs Fixes.all t a i = readAs Fixes.all t a' i`).
-/
namespace SaModel.Spec
open SaModel SaModel.Read

/-- the same answer to `i < len` -/
def ltEq (i len len' : Nat) : Bool := decide (i < len) == decide (i < len')

/-- the same validity bit (or the same failure to read it) -/
def bitEq (v v' : Option Bits) (i : Nat) : Bool := decide (isValid v i = isValid v' i)

/-- `rest` is asked only where the bitmap marks slot `i` valid -/
@[macro_inline] def whenValid (v : Option Bits) (i : Nat) (rest : Bool) : Bool :=
  match isValid v i with
  | .ok true => rest
  | _ => true

/-- slot `i` of a leaf column: the row test; in range the validity bit; valid the content -/
@[macro_inline] def slotEq (i len len' : Nat) (v v' : Option Bits) (content : Bool) : Bool :=
  ltEq i len len' && (if i < len then bitEq v v' i && whenValid v i content else true)

/-- slot `i` of a struct / list / map / fixed-size-list column: the row test; in range the content — behind the
validity bit when the target consults it (`opt`) -/
@[macro_inline] def rowEq (opt : Bool) (i len len' : Nat) (v v' : Option Bits) (content : Bool) : Bool :=
  ltEq i len len' && (if i < len then (if opt then bitEq v v' i && whenValid v i content else content) else true)

/-- the bytes two offsets designate in a data buffer, if they designate any -/
def byteSlice (data : Bytes) (s e : Int) : Option Bytes :=
  if 0 ≤ s ∧ s ≤ e ∧ e ≤ (data.length : Int) then some ((data.drop s.toNat).take (e.toNat - s.toNat)) else none

/-- the bytes a view descriptor designates (inline or in one of the buffers), if it designates any -/
def viewSlice (buffers : List Bytes) (desc : Nat) : Option Bytes :=
  match decodeView buffers desc with
  | .ok b => some b
  | .error _ => none

/-- the number of rows of a fixed-size binary column, if the buffer is divisible into rows of `n` bytes -/
def fsbLen (n : Int) (data : Bytes) : Option Nat :=
  if n < 0 then none
  else if n.toNat = 0 then (if data.length = 0 then some 0 else none)
  else if data.length % n.toNat = 0 then some (data.length / n.toNat) else none

/-- what row `i` of the type ids / offsets of a union column says -/
def unionHead (types : List Int) (offs : Option (List Int)) (i : Nat) : Option Int × Option (Bool × Option Int) :=
  (types[i]?, offs.map fun o => (decide (types.length = o.length), o[i]?))

/-- which constructor -/
def kind : Arr → Nat
  | .null _ => 0 | .boolean _ _ _ => 1 | .prim _ _ _ => 2 | .time _ _ _ _ => 3 | .timestamp _ _ _ _ => 4
  | .decimal128 _ _ _ _ => 5 | .bytes _ _ _ _ => 6 | .bytesView _ _ _ _ => 7 | .fixedSizeBinary _ _ _ => 8
  | .struct _ _ _ => 9 | .list _ _ _ _ _ => 10 | .fixedSizeList _ _ _ _ _ => 11 | .map _ _ _ _ _ => 12
  | .dictionary _ _ => 13 | .union _ _ _ => 14

/-- does the target consult `is_some` before it reads (`Option`, `deserialize_any`, `IgnoredAny`) -/
def optOf (t : Target) : Bool := (peelTarget t).2 || isAnyLike (peelTarget t).1

/-- the target the elements of a fixed-size-list column are read with (`none`: the target does not read them) -/
def fslElemTarget? : Target → Option Target
  | .seq e => some e
  | .any | .ignored => some .any
  | _ => none

/-- the same for a list column (`ByteBuf` reads a list of `u8`) -/
def elemTarget? : Target → Option Target
  | .byteBuf => some (.int .u8)
  | p => fslElemTarget? p

/-- does the target look at the offsets of a list column (`&[u8]` does, and then rejects the sequence) -/
def readsList : Target → Bool
  | .bytes => true
  | p => (elemTarget? p).isSome

/-- the targets the keys and the values of a map column are read with -/
def entryTargets? : Target → Option (Target × Target)
  | .map k v => some (k, v)
  | .any | .ignored => some (.any, .any)
  | _ => none

/-- the target the payload of the union child at position `pos` called `name` is read with (`none`: the target has
no such variant, or does not read unions: the child is not looked at) -/
def variantTarget? (p : Target) (pos : Nat) (name : String) : Option Target :=
  match p with
  | .enum byIndex vs =>
    (match (if byIndex then variantNth vs pos else variantNamed vs name) with
     | some (.newtype tt) => some tt
     | some (.tuple ts) => some (.tuple ts)
     | some (.struct tfs) => some (.struct tfs)
     | some .unit => some .unit
     | none => none)
  | .any | .ignored => some .any
  | _ => none

/-- the elements `s … e-1` of a child of length `len` (`f j`: slot `j` of the child agrees): no element when the
range is empty; `whole` (the children are equal) when the range leaves the child -/
def rangeEqN (f : Nat → Bool) (whole : Bool) (len s e : Nat) : Bool :=
  if s < e then (if e ≤ len then (List.range (e - s)).all fun k => f (s + k) else whole) else true

/-- the same for a pair of offsets (a negative offset designates no element) -/
def rangeEq (f : Nat → Bool) (whole : Bool) (len : Nat) (s e : Int) : Bool :=
  if 0 ≤ s ∧ 0 ≤ e then rangeEqN f whole len s.toNat e.toNat else true

mutual
/-- `touchEq` below the `newtype` / `Option` layers: `p` the target there, `opt` whether `is_some` is consulted -/
def touchEqW (opt : Bool) (p : Target) : Arr → Arr → Nat → Bool
  | .null len, a', i =>
    (match a' with
     | .null len' => ltEq i len len'
     | _ => false)
  | .boolean len v vals, a', i =>
    (match a' with
     | .boolean len' v' vals' => slotEq i len len' v v' (decide (getBit vals i = getBit vals' i))
     | _ => false)
  | .prim ty v vals, a', i =>
    (match a' with
     | .prim ty' v' vals' =>
       decide (ty = ty') && slotEq i vals.length vals'.length v v' (decide (vals[i]? = vals'[i]?))
     | _ => false)
  | .time ty u v vals, a', i =>
    (match a' with
     | .time ty' u' v' vals' =>
       decide (ty = ty') && decide (u = u') && slotEq i vals.length vals'.length v v' (decide (vals[i]? = vals'[i]?))
     | _ => false)
  | .timestamp u tz v vals, a', i =>
    (match a' with
     | .timestamp u' tz' v' vals' =>
       decide (u = u') && decide (tz = tz') && slotEq i vals.length vals'.length v v' (decide (vals[i]? = vals'[i]?))
     | _ => false)
  | .decimal128 pr s v vals, a', i =>
    (match a' with
     | .decimal128 pr' s' v' vals' =>
       decide (pr = pr') && decide (s = s') && slotEq i vals.length vals'.length v v' (decide (vals[i]? = vals'[i]?))
     | _ => false)
  | .bytes ty v offs data, a', i =>
    (match a' with
     | .bytes ty' v' offs' data' =>
       decide (ty = ty') && slotEq i (offs.length - 1) (offs'.length - 1) v v'
         (decide (offs[i]? = offs'[i]?) && decide (offs[i + 1]? = offs'[i + 1]?) &&
          decide (byteSlice data (offs.getD i 0) (offs.getD (i + 1) 0) = byteSlice data' (offs.getD i 0) (offs.getD (i + 1) 0)))
     | _ => false)
  | .bytesView ty v views buffers, a', i =>
    (match a' with
     | .bytesView ty' v' views' buffers' =>
       decide (ty = ty') && slotEq i views.length views'.length v v'
         (decide (views[i]? = views'[i]?) &&
          decide (viewSlice buffers (views.getD i 0) = viewSlice buffers' (views.getD i 0)))
     | _ => false)
  | .fixedSizeBinary n v data, a', i =>
    (match a' with
     | .fixedSizeBinary n' v' data' =>
       decide (n = n') &&
       (match fsbLen n data, fsbLen n data' with
        | some len, some len' =>
          slotEq i len len' v v'
            (decide ((data.drop (i * n.toNat)).take n.toNat = (data'.drop (i * n.toNat)).take n.toNat))
        | none, none => true
        | _, _ => false)
     | _ => false)
  | .struct len v fs, a', i =>
    (match a' with
     | .struct len' v' fs' =>
       rowEq opt i len len' v v'
         (match p with
          | .struct tfs => namedEq tfs fs fs' i
          | .tuple ts | .tupleStruct ts => tupleEq ts fs fs' i
          | .map _ w => allEq w fs fs' i
          | .any | .ignored => allEq .any fs fs' i
          | _ => true)
     | _ => false)
  | .list _ v offs _ el, a', i =>
    (match a' with
     | .list _ v' offs' _ el' =>
       rowEq opt i (offs.length - 1) (offs'.length - 1) v v'
         (!readsList p ||
          (decide (offs[i]? = offs'[i]?) && decide (offs[i + 1]? = offs'[i + 1]?) &&
           (match elemTarget? p with
            | some et =>
              rangeEq (fun j => touchEqW (optOf et) (peelTarget et).1 el el' j) (decide (el = el')) (lenOf el)
                (offs.getD i 0) (offs.getD (i + 1) 0)
            | none => true)))
     | _ => false)
  | .fixedSizeList len v n _ el, a', i =>
    (match a' with
     | .fixedSizeList len' v' n' _ el' =>
       decide (n = n') &&
       rowEq opt i len len' v v'
         (match fslElemTarget? p with
          | some et =>
            if 0 ≤ n then
              rangeEqN (fun j => touchEqW (optOf et) (peelTarget et).1 el el' j) (decide (el = el')) (lenOf el)
                (i * n.toNat) ((i + 1) * n.toNat)
            else true
          | none => true)
     | _ => false)
  | .map v offs _ ks vs, a', i =>
    (match a' with
     | .map v' offs' _ ks' vs' =>
       rowEq opt i (offs.length - 1) (offs'.length - 1) v v'
         (match entryTargets? p with
          | some (kt, vt) =>
            decide (offs[i]? = offs'[i]?) && decide (offs[i + 1]? = offs'[i + 1]?) &&
            rangeEq (fun j => touchEqW (optOf kt) (peelTarget kt).1 ks ks' j) (decide (ks = ks')) (lenOf ks)
              (offs.getD i 0) (offs.getD (i + 1) 0) &&
            rangeEq (fun j => touchEqW (optOf vt) (peelTarget vt).1 vs vs' j) (decide (vs = vs')) (lenOf vs)
              (offs.getD i 0) (offs.getD (i + 1) 0)
          | none => true)
     | _ => false)
  | .dictionary ks vs, a', i =>
    (match a' with
     | .dictionary ks' vs' =>
       kind ks == kind ks' && kind vs == kind vs' &&
       (match ks with
        | .prim _ kv kvals =>
          touchEqW false p ks ks' i &&
          (match vs with
           | .bytes _ _ _ _ =>
             (match isValid kv i, kvals[i]? with
              | .ok true, some k => if 0 ≤ k then touchEqW false p vs vs' k.toNat else true
              | _, _ => true)
           | _ => true)
        | _ => true)
     | _ => false)
  | .union types offs fs, a', i =>
    (match a' with
     | .union types' offs' fs' =>
       decide (unionHead types offs i = unionHead types' offs' i) && decide (fs.length = fs'.length) &&
       (match types[i]?, offs with
        | some t, some o =>
          (match o[i]? with
           | some off =>
             if 0 ≤ t ∧ 0 ≤ off then variantEq (variantTarget? p t.toNat) fs fs' t.toNat off.toNat else true
           | none => true)
        | _, _ => true)
     | _ => false)
termination_by structural a _ _ => a
/-- a struct target over the fields of a struct column: same names; the fields the target names with the target of
that name, the others the way serde skips an unknown field (`IgnoredAny`: `deserialize_any`) -/
def namedEq : TFields → ArrFields → ArrFields → Nat → Bool
  | _, .nil, fs', _ =>
    (match fs' with
     | .nil => true
     | _ => false)
  | tfs, .cons fm c r, fs', i =>
    (match fs' with
     | .cons fm' c' r' =>
       decide (fm.name = fm'.name) &&
       (match tfieldNamed tfs fm.name with
        | some tt => touchEqW (optOf tt) (peelTarget tt).1 c c' i
        | none => touchEqW true .any c c' i) &&
       namedEq tfs r r' i
     | .nil => false)
termination_by structural _ fs _ _ => fs
/-- a tuple target: the leading fields by position (the column needs as many fields as the target has elements) -/
def tupleEq : Targets → ArrFields → ArrFields → Nat → Bool
  | .nil, _, _, _ => true
  | .cons _ _, .nil, fs', _ =>
    (match fs' with
     | .nil => true
     | _ => false)
  | .cons t ts, .cons _ c r, fs', i =>
    (match fs' with
     | .cons _ c' r' => touchEqW (optOf t) (peelTarget t).1 c c' i && tupleEq ts r r' i
     | .nil => false)
termination_by structural _ fs _ _ => fs
/-- a map / any target: same names, every field with the same target -/
def allEq : Target → ArrFields → ArrFields → Nat → Bool
  | _, .nil, fs', _ =>
    (match fs' with
     | .nil => true
     | _ => false)
  | t, .cons fm c r, fs', i =>
    (match fs' with
     | .cons fm' c' r' =>
       decide (fm.name = fm'.name) && touchEqW (optOf t) (peelTarget t).1 c c' i && allEq t r r' i
     | .nil => false)
termination_by structural _ fs _ _ => fs
/-- the union children at position `k`: same name, slot `j` with the target `vt` assigns to that name -/
def variantEq : (String → Option Target) → ArrUFields → ArrUFields → Nat → Nat → Bool
  | _, .nil, _, _, _ => true
  | vt, .cons _ fm c _, fs', 0, j =>
    (match fs' with
     | .cons _ fm' c' _ =>
       decide (fm.name = fm'.name) &&
       (match vt fm.name with
        | some t => touchEqW (optOf t) (peelTarget t).1 c c' j
        | none => true)
     | .nil => false)
  | vt, .cons _ _ _ r, fs', k + 1, j =>
    (match fs' with
     | .cons _ _ _ r' => variantEq vt r r' k j
     | .nil => false)
termination_by structural _ fs _ _ _ => fs
end

/-- `a'` agrees with `a` on what a read of target `t` at slot `i` looks at -/
def touchEq (t : Target) (a a' : Arr) (i : Nat) : Bool := touchEqW (optOf t) (peelTarget t).1 a a' i

end SaModel.Spec
