import SaModel.Read.DVal
import SaModel.Spec.DecodeAt
/-
`touchOK t a i` — C17's "never returns bytes or elements from outside the ranges the view itself designates",
as a predicate on (target type, view, slot) that is independent of the reader model: every slot a SUCCESSFUL read
of target `t` at slot `i` of `a` has to visit lies below the length of the array it belongs to (rows below the
declared length, list / map / fixed-size elements and union / dictionary references below the child's length).

At the LEAVES it also says where the bytes of a valid slot come from (`leafOK`): the offset pair of a Utf8 / Binary
column lies inside the data buffer (`0 ≤ offsets[i] ≤ offsets[i+1] ≤ data length` — for a leaf also when the pair is
empty: `BytesView::get` slices `data[start..end]` whatever its length), the descriptor of a Utf8View / BinaryView
column is inline (length ≤ 12) or names a buffer the view HAS (`buffer index < number of buffers`) and a range inside
THAT buffer (`offset + length ≤ its length`), row `i` of a FixedSizeBinary column lies inside the data (`0 ≤ n`,
`(i+1)·n ≤ data length`); the same for the value slot a dictionary key designates.  A slot the bitmap marks null
designates no bytes (`slotNull`: the readers return before they look at offsets or descriptor).

It follows only what the target reads (a struct target visits the fields it names, a tuple the leading fields, an
`Option` / `any` target stops at a null slot), it does not look at validity-bitmap sizes or UTF-8 (those are decided
by `Spec.decodeAt`), and it accepts an empty ELEMENT range of a list / map column wherever it lies (recorded known
finding `C17-empty-range-beyond-child`: lists and maps only, not the byte range of a leaf).  Used by the `corrupt`
suite (through `Driver/TouchRange.lean`) for reads that return `Ok` although `Spec.decodeAt` rejects the slot: if
`touchOK` is false the result can only have been assembled from outside the designated ranges, whatever the
uncorrupted view would have given.

Total: structural recursion over the array (`touchOK` with the helpers over `ArrFields` / `ArrUFields`); the target
is a parameter that changes along the way (`peelTarget` removes the `newtype` / `Option` layers, which do not move
to another array).  `SaModel/Props/C17.lean` proves `readAs_touch_in_range`: a successful read of the reader model
implies `touchOK`.
-/
namespace SaModel.Spec
open SaModel SaModel.Read

def validityOf : Arr → Option Bits
  | .boolean _ v _ | .prim _ v _ | .time _ _ v _ | .timestamp _ _ v _ | .decimal128 _ _ v _ => v
  | .bytes _ v _ _ | .bytesView _ v _ _ | .fixedSizeBinary _ v _ => v
  | .struct _ v _ | .list _ v _ _ _ | .fixedSizeList _ v _ _ _ | .map v _ _ _ _ => v
  | _ => none

/-- the bitmap marks slot `i` as null (an unreadable bitmap position counts as "not null": the read fails there) -/
def slotNull (a : Arr) (i : Nat) : Bool :=
  match a with
  | .null _ => true
  | .dictionary ks _ => (match isValid (validityOf ks) i with | .ok b => !b | .error _ => false)
  | a => (match isValid (validityOf a) i with | .ok b => !b | .error _ => false)

/-- what a VALID slot `i` of a leaf column designates lies inside the buffer it names: the offset pair of a Utf8 /
Binary column inside `data` (also when it is empty), the descriptor of a view column inline or inside a buffer the
view has, row `i` of a FixedSizeBinary column inside `data`; nothing to say for the other leaves (the value of slot
`i < length` is element `i` of the values) -/
def leafOK : Arr → Nat → Bool
  | .bytes _ _ offs data, i =>
    decide (0 ≤ offs.getD i 0 ∧ offs.getD i 0 ≤ offs.getD (i + 1) 0 ∧ offs.getD (i + 1) 0 ≤ (data.length : Int))
  | .bytesView _ _ views buffers, i =>
    let desc := views.getD i 0
    let len := desc % 4294967296
    if len ≤ 12 then true
    else
      match buffers[(desc >>> 64) % 4294967296]? with
      | none => false
      | some buf => decide ((desc >>> 96) % 4294967296 + len ≤ buf.length)
  | .fixedSizeBinary n _ data, i => decide (0 ≤ n ∧ (i + 1) * n.toNat ≤ data.length)
  | _, _ => true

/-- slot `i` of a leaf column: null (no bytes are designated), or what it designates is in range -/
def leafSlotOK (a : Arr) (i : Nat) : Bool := slotNull a i || leafOK a i

/-- `struct N(T)` and `Option<T>` read the same slot of the same array as `T`: the target below these layers, and
whether an `Option` layer was passed (an `Option` target stops at a null slot) -/
def peelTarget : Target → Target × Bool
  | .newtype t => peelTarget t
  | .option t => ((peelTarget t).1, true)
  | t => (t, false)

/-- `deserialize_any` / `IgnoredAny`: stop at a null slot, read every child with the same target -/
def isAnyLike : Target → Bool
  | .any | .ignored => true
  | _ => false

def tfieldNamed : TFields → String → Option Target
  | .nil, _ => none
  | .cons n t r, name => if n == name then some t else tfieldNamed r name

def targetsNth : Targets → Nat → Option Target
  | .nil, _ => none
  | .cons t _, 0 => some t
  | .cons _ r, k + 1 => targetsNth r k

def variantNamed : TVariants → String → Option VKind
  | .nil, _ => none
  | .cons n k r, name => if n == name then some k else variantNamed r name

def variantNth : TVariants → Nat → Option VKind
  | .nil, _ => none
  | .cons _ k _, 0 => some k
  | .cons _ _ r, i + 1 => variantNth r i

/-- target of element `k` of a list-like column -/
def elemTarget (t : Target) (k : Nat) : Target :=
  match t with
  | .seq e => e
  | .tuple ts | .tupleStruct ts => (targetsNth ts k).getD .ignored
  | .any | .ignored => t
  | _ => .any

/-- targets of the keys and of the values of a map column -/
def entryTargets (t : Target) : Target × Target :=
  match t with
  | .map k v => (k, v)
  | .any | .ignored => (t, t)
  | _ => (.any, .any)

/-- target of the payload of the union child at position `pos` called `name` (a unit variant / an unknown variant
still calls into the child reader) -/
def variantTarget (t : Target) (pos : Nat) (name : String) : Target :=
  match t with
  | .enum byIndex vs =>
    (match (if byIndex then variantNth vs pos else variantNamed vs name) with
     | some (.newtype tt) => tt
     | some (.tuple ts) => .tuple ts
     | some (.struct tfs) => .struct tfs
     | some .unit => .ignored
     | none => .ignored)
  | .any | .ignored => t
  | _ => .any

/-- the child slot a dense (`offs = some _`) / sparse union refers to at row `i` -/
def unionSlot (offs : Option (List Int)) (i : Nat) : Option Nat :=
  match offs with
  | some o => if i < o.length ∧ 0 ≤ o.getD i (-1) then some (o.getD i 0).toNat else none
  | none => some i

/-- the element range `s … e-1` of a child of length `len`: empty wherever it lies, else inside the child and every
element (`f k j`: element number `k`, which is slot `j` of the child) in range -/
def rangeOK (f : Nat → Nat → Bool) (len : Nat) (s e : Int) : Bool :=
  if s == e then true
  else if 0 ≤ s ∧ s ≤ e ∧ e ≤ (len : Int) then
    (List.range (e.toNat - s.toNat)).all fun k => f k (s.toNat + k)
  else false

mutual
def touchOK : Target → Arr → Nat → Bool
  | t, a, i =>
    if i ≥ lenOf a then false
    else if ((peelTarget t).2 || isAnyLike (peelTarget t).1) && slotNull a i then true
    else
      match a with
      | .struct _ _ fs =>
        (match (peelTarget t).1 with
         | .struct tfs => touchNamed tfs fs i
         | .tuple ts | .tupleStruct ts => touchTuple ts fs i
         | .map _ v => touchAll v fs i
         | .any => touchAll .any fs i
         | .ignored => touchAll .ignored fs i
         | _ => true)
      | .list _ _ offs _ el =>
        if i + 1 < offs.length then
          rangeOK (fun k j => touchOK (elemTarget (peelTarget t).1 k) el j) (lenOf el) (offs.getD i 0) (offs.getD (i + 1) 0)
        else false
      | .fixedSizeList _ _ n _ el =>
        if n < 0 then false
        else rangeOK (fun k j => touchOK (elemTarget (peelTarget t).1 k) el j) (lenOf el) (i * n) ((i + 1) * n)
      | .map _ offs _ ks vs =>
        if i + 1 < offs.length then
          rangeOK (fun _ j => touchOK (entryTargets (peelTarget t).1).1 ks j) (lenOf ks) (offs.getD i 0) (offs.getD (i + 1) 0) &&
          rangeOK (fun _ j => touchOK (entryTargets (peelTarget t).1).2 vs j) (lenOf vs) (offs.getD i 0) (offs.getD (i + 1) 0)
        else false
      | .dictionary ks vs =>
        (match decodeAt ks i with
         | .ok (.int j) => 0 ≤ j && j.toNat < lenOf vs && leafSlotOK vs j.toNat
         | _ => true)
      | .union types offs fs =>
        (match indexOfTypeId (ArrUFields.ids fs) (types.getD i 0) with
         | none => true            -- the read fails (or the column is not readable): nothing is returned
         | some pos => touchVariant fs pos (variantTarget (peelTarget t).1 pos) (unionSlot offs i))
      | a => leafSlotOK a i
/-- a struct target: every field of the column the target names -/
def touchNamed : TFields → ArrFields → Nat → Bool
  | _, .nil, _ => true
  | tfs, .cons fm c r, i =>
    (match tfieldNamed tfs fm.name with
     | some tt => touchOK tt c i
     | none => true) && touchNamed tfs r i
/-- a tuple target: the leading fields, pairwise -/
def touchTuple : Targets → ArrFields → Nat → Bool
  | .cons t ts, .cons _ c r, i => touchOK t c i && touchTuple ts r i
  | _, _, _ => true
/-- a map / any / ignored target: every field, with the same target -/
def touchAll : Target → ArrFields → Nat → Bool
  | _, .nil, _ => true
  | t, .cons _ c r, i => touchOK t c i && touchAll t r i
/-- the union child at position `pos`, read at slot `j` with the target `vt` assigns to its name -/
def touchVariant : ArrUFields → Nat → (String → Target) → Option Nat → Bool
  | .nil, _, _, _ => true
  | .cons _ fm c _, 0, vt, j =>
    (match j with
     | none => false
     | some j => if j ≥ lenOf c then false else touchOK (vt fm.name) c j)
  | .cons _ _ _ r, k + 1, vt, j => touchVariant r k vt j
end

end SaModel.Spec
