import SaModel.Spec.Decode
/-
C03's specification: `WF f a = WFS f a ∧ typeOf a = f.dataType` (end of this file).
`wf` / `WFS`: structural validity of an array for a field, spelled out independently of how arrays are built:
data type compatible with the field's (child names, nullability, metadata, parameters — but NOT the union mode and NOT the
nullability / metadata of a Map's entries field: exact type equality is `typeOf a = f.dataType`), offsets start at 0, never
decrease and end at the child length, bitmaps cover the length and are present iff the field is nullable,
fixed-size children hold n entries per row, type ids and dense offsets in range, dictionary keys in range,
string data valid UTF-8, no null in a non-nullable field.
-/
namespace SaModel.Spec
open SaModel

/-- UTF-8 validity (RFC 3629: no overlongs, no surrogates, ≤ U+10FFFF) -/
def validUtf8 : Bytes → Bool
  | [] => true
  | b0 :: rest =>
    let b0 := b0.toNat
    if b0 < 0x80 then validUtf8 rest
    else if 0xC2 ≤ b0 ∧ b0 ≤ 0xDF then
      match rest with
      | b1 :: r => (0x80 ≤ b1.toNat ∧ b1.toNat ≤ 0xBF) && validUtf8 r
      | _ => false
    else if 0xE0 ≤ b0 ∧ b0 ≤ 0xEF then
      match rest with
      | b1 :: b2 :: r =>
        let lo := if b0 = 0xE0 then 0xA0 else 0x80
        let hi := if b0 = 0xED then 0x9F else 0xBF
        (lo ≤ b1.toNat ∧ b1.toNat ≤ hi) && (0x80 ≤ b2.toNat ∧ b2.toNat ≤ 0xBF) && validUtf8 r
      | _ => false
    else if 0xF0 ≤ b0 ∧ b0 ≤ 0xF4 then
      match rest with
      | b1 :: b2 :: b3 :: r =>
        let lo := if b0 = 0xF0 then 0x90 else 0x80
        let hi := if b0 = 0xF4 then 0x8F else 0xBF
        (lo ≤ b1.toNat ∧ b1.toNat ≤ hi) && (0x80 ≤ b2.toNat ∧ b2.toNat ≤ 0xBF) && (0x80 ≤ b3.toNat ∧ b3.toNat ≤ 0xBF) && validUtf8 r
      | _ => false
    else false

/-- bitmap of an array of length `len` for a field with nullability `nullable`:
present iff nullable, no bit offset (built arrays), exactly ⌈len/8⌉ bytes, bits beyond `len` clear -/
def validityOk (nullable : Bool) (v : Option Bits) (len : Nat) : Bool :=
  match v with
  | none => !nullable
  | some b => nullable && b.offset == 0 && b.data.length == (len + 7) / 8 &&
      (List.range (b.data.length * 8 - len)).all fun k => (getBit b (len + k)).toOption == some false

def offsetsOk (offs : List Int) (childLen : Nat) (maxOff : Int) : Bool :=
  offs.head? == some 0 && offs.getLast? == some (childLen : Int) &&
  (offs.zip offs.tail).all (fun (a, b) => a ≤ b) && offs.all (fun o => 0 ≤ o ∧ o ≤ maxOff)

def metaMatches (fm : FieldMeta) (f : Field) : Bool :=
  fm.name == f.name && fm.nullable == f.nullable && fm.metadata == f.metadata

def slotsAllOk (a : Arr) : Bool := (decodeAll a).all fun r => r.isOk

def primMatches : PrimTy → DataType → Bool
  | .int8, .int8 | .int16, .int16 | .int32, .int32 | .int64, .int64
  | .uint8, .uint8 | .uint16, .uint16 | .uint32, .uint32 | .uint64, .uint64
  | .float16, .float16 | .float32, .float32 | .float64, .float64
  | .date32, .date32 | .date64, .date64 => true
  | _, _ => false

def primRange : PrimTy → Int × Int
  | .int8 => (-128, 127) | .int16 => (-32768, 32767) | .int32 | .date32 => (-2147483648, 2147483647)
  | .int64 | .date64 => (-9223372036854775808, 9223372036854775807)
  | .uint8 => (0, 255) | .uint16 | .float16 => (0, 65535) | .uint32 | .float32 => (0, 4294967295)
  | .uint64 | .float64 => (0, 18446744073709551615)

def inRng (r : Int × Int) (xs : List Int) : Bool := xs.all fun x => r.1 ≤ x ∧ x ≤ r.2

def bytesUtf8 (offs : List Int) (data : Bytes) : Bool :=
  (offs.zip offs.tail).all fun (s, e) => validUtf8 ((data.drop s.toNat).take (e.toNat - s.toNat))

mutual
/-- `wf dt nullable md a`: `a` is a well-formed array of a field with this type / nullability / metadata -/
def wf : DataType → Bool → Arr → Bool
  | .null, _, .null _ => true
  | .boolean, nl, .boolean len v vals => validityOk nl v len && vals.offset == 0 && vals.data.length == (len + 7) / 8
  | .time32 u, nl, .time .time32 u' v vals => u == u' && validityOk nl v vals.length && inRng (-2147483648, 2147483647) vals
  | .time64 u, nl, .time .time64 u' v vals => u == u' && validityOk nl v vals.length && inRng (-9223372036854775808, 9223372036854775807) vals
  | .duration u, nl, .time .duration u' v vals => u == u' && validityOk nl v vals.length && inRng (-9223372036854775808, 9223372036854775807) vals
  | .timestamp u tz, nl, .timestamp u' tz' v vals => u == u' && tz == tz' && validityOk nl v vals.length && inRng (-9223372036854775808, 9223372036854775807) vals
  | .decimal128 p s, nl, .decimal128 p' s' v vals => p == p' && s == s' && validityOk nl v vals.length
  | .utf8, nl, .bytes .utf8 v offs data => validityOk nl v (offs.length - 1) && offsetsOk offs data.length 2147483647 && bytesUtf8 offs data
  | .largeUtf8, nl, .bytes .largeUtf8 v offs data => validityOk nl v (offs.length - 1) && offsetsOk offs data.length 9223372036854775807 && bytesUtf8 offs data
  | .binary, nl, .bytes .binary v offs data => validityOk nl v (offs.length - 1) && offsetsOk offs data.length 2147483647
  | .largeBinary, nl, .bytes .largeBinary v offs data => validityOk nl v (offs.length - 1) && offsetsOk offs data.length 9223372036854775807
  | .utf8View, nl, a@(.bytesView .utf8View v views _) => validityOk nl v views.length && slotsAllOk a &&
      (decodeAll a).all (fun r => match r with | .ok (.str b) => validUtf8 b | .ok .null => true | _ => false)
  | .binaryView, nl, a@(.bytesView .binaryView v views _) => validityOk nl v views.length && slotsAllOk a
  | .fixedSizeBinary n, nl, .fixedSizeBinary n' v data =>
      n == n' && 0 ≤ n && (if n == 0 then data.isEmpty else data.length % n.toNat == 0) && validityOk nl v (if n ≤ 0 then 0 else data.length / n.toNat)
  | .struct fs, nl, .struct len v cols => validityOk nl v len && wfFields fs cols len
  | .list f, nl, .list false v offs fm el =>
      validityOk nl v (offs.length - 1) && metaMatches fm f && offsetsOk offs (decodeAll el).length 2147483647 && wf f.dataType f.nullable el
  | .largeList f, nl, .list true v offs fm el =>
      validityOk nl v (offs.length - 1) && metaMatches fm f && offsetsOk offs (decodeAll el).length 9223372036854775807 && wf f.dataType f.nullable el
  | .fixedSizeList f n, nl, .fixedSizeList len v n' fm el =>
      n == n' && 0 ≤ n && validityOk nl v len && metaMatches fm f && (decodeAll el).length == len * n.toNat && wf f.dataType f.nullable el
  | .map (.mk ename (.struct (.cons kf (.cons vf .nil))) _ _) sorted, nl, .map v offs mm ks vs =>
      validityOk nl v (offs.length - 1) && mm.entriesName == ename && mm.sorted == sorted && metaMatches mm.keys kf && metaMatches mm.values vf &&
      offsetsOk offs (decodeAll ks).length 2147483647 && (decodeAll ks).length == (decodeAll vs).length &&
      wf kf.dataType kf.nullable ks && wf vf.dataType vf.nullable vs
  | .dictionary k vdt, nl, a@(.dictionary ks vs) => wf k nl ks && wf vdt false vs && slotsAllOk a
  | .union fs _, _, a@(.union types offs cols) =>
      offs.isSome && (offs.getD []).length == types.length && wfUFields fs cols 0 && slotsAllOk a
  | dt, nl, .prim ty v vals => primMatches ty dt && validityOk nl v vals.length && inRng (primRange ty) vals
  | _, _, _ => false
def wfFields : Fields → ArrFields → Nat → Bool
  | .nil, .nil, _ => true
  | .cons f rest, .cons fm a arest, len =>
      metaMatches fm f && (decodeAll a).length == len && wf f.dataType f.nullable a && wfFields rest arest len
  | _, _, _ => false
def wfUFields : UFields → ArrUFields → Int → Bool
  | .nil, .nil, _ => true
  | .cons tid f rest, .cons tid' fm a arest, k =>
      tid == tid' && tid == k && metaMatches fm f && wf f.dataType f.nullable a && wfUFields rest arest (k + 1)
  | _, _, _ => false
end

/-- STRUCTURAL validity of `a` for the field `f` (the former `WF`): layout (bitmaps, offsets, child lengths, ids and keys
in range, UTF-8, value ranges) and the type parameters the recursion meets on its way.  It does NOT compare the union
mode, nor the nullability / metadata of a Map's entries field (wild cards in the `.union` and `.map` arms of `wf`): type
equality is the business of `typeOf` below.  No null may be visible in a non-nullable field: implied by `validityOk`
(no bitmap ⇒ no null). -/
def WFS (f : Field) (a : Arr) : Bool := wf f.dataType f.nullable a

/-! ### the data type of an array

`typeOf` transliterates marrow 0.2.3 `View::data_type` / `Array::data_type` (marrow/src/view.rs:107, array.rs:119) arm by
arm; it is written over the physical array alone and knows nothing of the builders.  `field_from_meta(dt, meta)` is
`fieldOfMeta`; a union is dense iff it has an offsets buffer; the entries field of a map is
`Field { name: meta.entries_name, data_type: Struct[keys, values], ..Field::default() }`, i.e. NOT nullable and without
metadata (marrow's `MapMeta` has no room for either). -/

/-- `field_from_meta` -/
def fieldOfMeta (fm : FieldMeta) (dt : DataType) : Field := .mk fm.name dt fm.nullable fm.metadata

def primDT : PrimTy → DataType
  | .int8 => .int8 | .int16 => .int16 | .int32 => .int32 | .int64 => .int64
  | .uint8 => .uint8 | .uint16 => .uint16 | .uint32 => .uint32 | .uint64 => .uint64
  | .float16 => .float16 | .float32 => .float32 | .float64 => .float64
  | .date32 => .date32 | .date64 => .date64

def timeDT : TimeTy → TimeUnit → DataType
  | .time32, u => .time32 u
  | .time64, u => .time64 u
  | .duration, u => .duration u

def bytesTyDT : BytesTy → DataType
  | .utf8 => .utf8 | .largeUtf8 => .largeUtf8 | .binary => .binary | .largeBinary => .largeBinary

def viewTyDT : ViewTy → DataType
  | .utf8View => .utf8View | .binaryView => .binaryView

mutual
/-- `Array::data_type` -/
def typeOf : Arr → DataType
  | .null _ => .null
  | .boolean _ _ _ => .boolean
  | .prim ty _ _ => primDT ty
  | .time ty u _ _ => timeDT ty u
  | .timestamp u tz _ _ => .timestamp u tz
  | .decimal128 p s _ _ => .decimal128 p s
  | .bytes ty _ _ _ => bytesTyDT ty
  | .bytesView ty _ _ _ => viewTyDT ty
  | .fixedSizeBinary n _ _ => .fixedSizeBinary n
  | .struct _ _ fs => .struct (typeOfFields fs)
  | .list false _ _ fm el => .list (fieldOfMeta fm (typeOf el))
  | .list true _ _ fm el => .largeList (fieldOfMeta fm (typeOf el))
  | .fixedSizeList _ _ n fm el => .fixedSizeList (fieldOfMeta fm (typeOf el)) n
  | .map _ _ mm ks vs =>
    .map (.mk mm.entriesName
      (.struct (.cons (fieldOfMeta mm.keys (typeOf ks)) (.cons (fieldOfMeta mm.values (typeOf vs)) .nil))) false []) mm.sorted
  | .dictionary ks vs => .dictionary (typeOf ks) (typeOf vs)
  | .union _ (some _) fs => .union (typeOfUFields fs) .dense
  | .union _ none fs => .union (typeOfUFields fs) .sparse
def typeOfFields : ArrFields → Fields
  | .nil => .nil
  | .cons fm a rest => .cons (fieldOfMeta fm (typeOf a)) (typeOfFields rest)
def typeOfUFields : ArrUFields → UFields
  | .nil => .nil
  | .cons tid fm a rest => .cons tid (fieldOfMeta fm (typeOf a)) (typeOfUFields rest)
end

/-- **C03's specification predicate**: `a` is a structurally valid array (`WFS`) WHOSE DATA TYPE — as marrow reports it —
EQUALS the data type of the field: child names, nullability, metadata and every parameter (time unit, time zone,
precision / scale, sizes, union mode and type ids, the map's sorted flag and entries field, dictionary key / value
types) included. -/
def WF (f : Field) (a : Arr) : Bool := WFS f a && decide (typeOf a = f.dataType)

end SaModel.Spec
