import SaModel.Trace.Tracer
import SaModel.Data.TypeCtor
/-
`coerce_primitive_type` (serde_arrow/src/internal/schema/tracer.rs) as DATA: the arms of its single
`match (prev, curr)` in source order, and a generic first-match interpreter for such a list of arms.

The list itself is not written here: translator/run.py parses the Rust source into
`SaModel/Generated/CoerceArms.lean` (`def arms : List Arm`) before every build.  This file only fixes the
vocabulary of an arm (what the translator may emit; anything else in the source makes the translator refuse) and
what a list of arms MEANS (`evalArms`).  `SaModel/Props/C07Gen.lean` proves that the generated list means what the
hand-written model `Trace.coerce_primitive_type` says, so that the C07 leaf theorems speak about the source as it is.

Shape of the Rust function (checked by the translator):

    fn coerce_primitive_type(prev: (&DataType, bool, Option<&Strategy>), curr: (DataType, Option<Strategy>),
                             options: &TracingOptions) -> Result<(DataType, bool, Option<Strategy>)> {
        use DataType::{…};
        let res = match (prev, curr) { <arms> };
        Ok(res)
    }

    arm  ::=  ((TY, B, S), (TY, S)) [if ATOM && … && ATOM] => (TYRES, NLRES, STRES)      -- or a block ending in fail!(…)
-/
namespace SaModel.Trace.CoerceTable
open SaModel SaModel.Trace

/-- the `bool` fields of `TracingOptions` a guard `if options.X` may name -/
inductive OptFlag where
  | allow_null_fields | map_as_struct | sequence_as_large_list | string_as_large_utf8
  | string_dictionary_encoding | coerce_numbers | allow_to_string | guess_dates | enums_without_data_as_strings
deriving Repr, DecidableEq

def OptFlag.get (o : Options) : OptFlag → Bool
  | .allow_null_fields => o.allow_null_fields
  | .map_as_struct => o.map_as_struct
  | .sequence_as_large_list => o.sequence_as_large_list
  | .string_as_large_utf8 => o.string_as_large_utf8
  | .string_dictionary_encoding => o.string_dictionary_encoding
  | .coerce_numbers => o.coerce_numbers
  | .allow_to_string => o.allow_to_string
  | .guess_dates => o.guess_dates
  | .enums_without_data_as_strings => o.enums_without_data_as_strings

/-- a pattern in a data-type slot: `_` / a binding identifier (`prev_ty`), or an or-pattern of constructors whose
sub-patterns are all wild cards or bindings (`UInt8 | UInt16`, `Timestamp(_, prev_tz)`) -/
inductive TyPat where
  | any
  | ctors (cs : List Ctor)
deriving Repr, DecidableEq

/-- one conjunct of an arm's `if` guard -/
inductive GuardAtom where
  /-- `options.X` -/
  | opt (f : OptFlag)
  /-- `prev_ty == &curr_ty` (both bound by the arm's pattern in the data-type slots) -/
  | tyEq
  /-- `prev_st == curr_st.as_ref()` (both bound in the strategy slots) -/
  | stEq
  /-- `prev_tz.as_ref() != curr_tz.as_ref()` (bound as the second argument of `Timestamp(_, _)` on either side) -/
  | tzNe
deriving Repr, DecidableEq

/-- first component of a result tuple -/
inductive TyRes where
  /-- `prev_ty.clone()` -/
  | prev
  /-- `curr_ty` -/
  | curr
  /-- a constructor without arguments, e.g. `UInt64` -/
  | ctor (c : Ctor)
  /-- `options.string_type()` -/
  | stringType
deriving Repr, DecidableEq

/-- second component: the identifier bound in the `nullable` slot of `prev`, or a literal -/
inductive NlRes where
  | prev
  | const (b : Bool)
deriving Repr, DecidableEq

/-- third component: `prev_st.cloned()`, `curr_st`, `None` -/
inductive StRes where
  | prev | curr | none
deriving Repr, DecidableEq

inductive Res where
  | ok (ty : TyRes) (nl : NlRes) (st : StRes)
  /-- a block that ends in `fail!(…)` -/
  | fail
deriving Repr, DecidableEq

structure Arm where
  prev : TyPat
  curr : TyPat
  guard : List GuardAtom
  res : Res
deriving Repr, DecidableEq

abbrev Prev := DataType × Bool × Option Strategy
abbrev Curr := DataType × Option Strategy

def TyPat.matches : TyPat → DataType → Bool
  | .any, _ => true
  | .ctors cs, d => Ctor.elem d.ctorOf cs

def GuardAtom.holds (o : Options) (p : Prev) (c : Curr) : GuardAtom → Bool
  | .opt f => f.get o
  | .tyEq => decide (p.1 = c.1)
  | .stEq => decide (p.2.2 = c.2)
  | .tzNe => tzOf p.1 != tzOf c.1

/-- the message of the model's last arm (`Trace.coerce_primitive_type`); only the class of an error is compared with
the crate -/
def failMsg : String := "Cannot accept type for tracer of primitive type"

def Res.eval (o : Options) (p : Prev) (c : Curr) : Res → R (DataType × Bool × Option Strategy)
  | .fail => SaModel.fail failMsg
  | .ok ty nl st =>
    let nl' := match nl with
      | .prev => p.2.1
      | .const b => b
    let st' := match st with
      | .prev => p.2.2
      | .curr => c.2
      | .none => none
    match ty with
    | .prev => .ok (p.1, nl', st')
    | .curr => .ok (c.1, nl', st')
    | .stringType => .ok (o.string_type, nl', st')
    | .ctor k =>
      match k.unit? with
      | some d => .ok (d, nl', st')
      | none => SaModel.panic "coerce table: result constructor takes arguments"

def Arm.fires (a : Arm) (o : Options) (p : Prev) (c : Curr) : Bool :=
  a.prev.matches p.1 && a.curr.matches c.1 && a.guard.all (·.holds o p c)

/-- Rust `match`: the first arm whose pattern matches and whose guard holds.  (A Rust `match` is exhaustive, so the
`[]` case is unreachable for a list translated from code that compiles; it is a panic here so that an incomplete list
can never agree with the model.) -/
def evalArms : List Arm → Options → Prev → Curr → R (DataType × Bool × Option Strategy)
  | [], _, _, _ => SaModel.panic "coerce table: no arm matches"
  | a :: rest, o, p, c => if a.fires o p c then a.res.eval o p c else evalArms rest o p c

/-- `TracingOptions::string_type` as data: `if self.<flag> { DataType::<a> } else { DataType::<b> }` -/
structure StringTypeRule where
  flag : OptFlag
  thenCtor : Ctor
  elseCtor : Ctor
deriving Repr, DecidableEq

def StringTypeRule.eval (r : StringTypeRule) (o : Options) : Option DataType :=
  if r.flag.get o then r.thenCtor.unit? else r.elseCtor.unit?

end SaModel.Trace.CoerceTable
