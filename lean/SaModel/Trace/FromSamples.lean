import SaModel.Trace.Tracer
import SaModel.Trace.Matchers
import SaModel.Data.SVal
/-
Model of `serde_arrow/src/internal/schema/from_samples/mod.rs`.

`absorb c o t x` is `x.serialize(TracerSerializer(&mut t))` over the shared serde data model `SVal`: one arm per
`Serializer` method, the compound serializers (`StructSerializer`, `ListSerializer`, `TupleSerializer`,
`MapSerializer`) are the helper functions over the value lists.  Structural recursion on the value, the tracer is
the accumulator.  A failing sample aborts `from_samples`, so partially updated tracers are never observed.
`fromSamples o xs` = `Tracer::from_samples(xs, o)?.to_schema()` for an outer sequence with elements `xs`.
-/
namespace SaModel.Trace
open SaModel SaModel.Trace.Matchers

def intDataType : IntTy → DataType
  | .i8 => .int8 | .i16 => .int16 | .i32 => .int32 | .i64 => .int64
  | .u8 => .uint8 | .u16 => .uint16 | .u32 => .uint32 | .u64 => .uint64

/-- the `(ty, st)` chosen by `TracerSerializer::serialize_str` (the strategy is always `None`) -/
def strType (o : Options) (s : String) : DataType :=
  if !o.guess_dates then o.string_type
  else if matches_naive_datetime s then .timestamp .millisecond none
  else if matches_utc_datetime s then .timestamp .millisecond (some "UTC")
  else if matches_naive_time s then .time64 .nanosecond
  else if matches_naive_date s then .date32
  else o.string_type

/-- `key.serialize(SerializeToString)`: only `serialize_str` is implemented -/
def serializeToString : SVal → R String
  | .str s => .ok s
  | _ => fail "Invalid argument: cannot interpret key as string"

/-- `TracerSerializer::ensure_union_variant`: the union node's parts and the variant's tracer -/
def ensure_union_variant (t : Tracer) (variant_name : String) (variant_index : Nat) :
    R (String × String × Bool × Variants × Tracer) := do
  let t ← t.ensure_union []
  match t with
  | .union n p nl vs =>
    let vs ← ensure_variant p vs variant_name variant_index
    match vs.get? variant_index with
    | some (some (_, vt)) => .ok (n, p, nl, vs, vt)
    | _ => panic "unreachable: variant slot"
  | _ => panic "unreachable: ensure_union"

mutual
/-- `value.serialize(TracerSerializer(tracer))` -/
def absorb (c : Code) (o : Options) : Tracer → SVal → R Tracer
  | t, .bool _ => t.ensure_primitive o .boolean
  | t, .int ty _ => t.ensure_number o (intDataType ty)
  | t, .f32 _ => t.ensure_number o .float32
  | t, .f64 _ => t.ensure_number o .float64
  | t, .char _ => t.ensure_primitive o .uint32
  | t, .unit => t.ensure_primitive o .null
  | t, .str s => t.ensure_primitive_with_strategy o (strType o s) none
  | t, .bytes _ => t.ensure_primitive o .largeBinary
  | t, .none => .ok t.mark_nullable
  | t, .some v => absorb c o t.mark_nullable v
  | t, .unitStruct _ => t.ensure_primitive o .null
  | t, .newtypeStruct _ v => absorb c o t v
  | t, .map es =>
    if o.map_as_struct then do
      let t ← t.ensure_struct c [] .map
      match t with
      | .struct n p nl fs m seen =>
        let fs ← absorbEntriesAsStruct c o p seen fs es
        .ok (.struct n p nl (fs.end_ seen) m (seen + 1))
      | _ => panic "unreachable: ensure_struct"
    else do
      let t ← t.ensure_map
      match t with
      | .map n p nl k v =>
        let (k, v) ← absorbEntriesAsMap c o k v es
        .ok (.map n p nl k v)
      | _ => panic "unreachable: ensure_map"
  | t, .mapRaw ops =>
    if o.map_as_struct then do
      let t ← t.ensure_struct c [] .map
      match t with
      | .struct n p nl fs m seen =>
        let fs ← absorbOpsAsStruct c o p seen fs none ops
        .ok (.struct n p nl (fs.end_ seen) m (seen + 1))
      | _ => panic "unreachable: ensure_struct"
    else do
      let t ← t.ensure_map
      match t with
      | .map n p nl k v =>
        let (k, v) ← absorbOpsAsMap c o k v ops
        .ok (.map n p nl k v)
      | _ => panic "unreachable: ensure_map"
  | t, .seq items => do
    let t ← t.ensure_list
    match t with
    | .list n p nl i =>
      let i ← absorbSeq c o i items
      .ok (.list n p nl i)
    | _ => panic "unreachable: ensure_list"
  | t, .tuple items => do
    let t ← t.ensure_tuple c items.length
    match t with
    | .tuple n p nl ts =>
      let ts ← absorbTuple c o p ts 0 items
      .ok (.tuple n p nl ts)
    | _ => panic "unreachable: ensure_tuple"
  | t, .tupleStruct _ items => do
    let t ← t.ensure_tuple c items.length
    match t with
    | .tuple n p nl ts =>
      let ts ← absorbTuple c o p ts 0 items
      .ok (.tuple n p nl ts)
    | _ => panic "unreachable: ensure_tuple"
  | t, .record _ fields => do
    let t ← t.ensure_struct c [] .struct
    match t with
    | .struct n p nl fs m seen =>
      let fs ← absorbFields c o p seen fs fields
      .ok (.struct n p nl (fs.end_ seen) m (seen + 1))
    | _ => panic "unreachable: ensure_struct"
  | t, .unitVariant _ idx vn => do
    let (n, p, nl, vs, vt) ← ensure_union_variant t vn idx
    let vt ← vt.ensure_primitive o .null
    .ok (.union n p nl (vs.set idx vn vt))
  | t, .newtypeVariant _ idx vn v => do
    let (n, p, nl, vs, vt) ← ensure_union_variant t vn idx
    let vt ← absorb c o vt v
    .ok (.union n p nl (vs.set idx vn vt))
  | t, .tupleVariant _ idx vn items => do
    let (n, p, nl, vs, vt) ← ensure_union_variant t vn idx
    let vt ← vt.ensure_tuple c items.length
    match vt with
    | .tuple n' p' nl' ts =>
      let ts ← absorbTuple c o p' ts 0 items
      .ok (.union n p nl (vs.set idx vn (.tuple n' p' nl' ts)))
    | _ => panic "unreachable: ensure_tuple"
  | t, .structVariant _ idx vn fields => do
    let (n, p, nl, vs, vt) ← ensure_union_variant t vn idx
    let vt ← vt.ensure_struct c [] .struct
    match vt with
    | .struct n' p' nl' fs m seen =>
      let fs ← absorbFields c o p' seen fs fields
      .ok (.union n p nl (vs.set idx vn (.struct n' p' nl' (fs.end_ seen) m (seen + 1))))
    | _ => panic "unreachable: ensure_struct"
/-- `ListSerializer::serialize_element` for every element -/
def absorbSeq (c : Code) (o : Options) : Tracer → SVals → R Tracer
  | i, .nil => .ok i
  | i, .cons v r => do
    let i ← absorb c o i v
    absorbSeq c o i r
/-- `TupleSerializer::serialize_element` / `serialize_field` for every element, `pos` = `self.1` -/
def absorbTuple (c : Code) (o : Options) (path : String) : Tracers → Nat → SVals → R Tracers
  | ts, _, .nil => .ok ts
  | ts, pos, .cons v r => do
    let ts := field_tracer_grow path pos ts
    match ts.get? pos with
    | some ft =>
      let ft ← absorb c o ft v
      absorbTuple c o path (ts.set pos ft) (pos + 1) r
    | none => panic "unreachable: field_tracer"
/-- `StructSerializer::serialize_field` for every field (the caller runs `end`) -/
def absorbFields (c : Code) (o : Options) (path : String) (seen : Nat) : TFields → SFields → R TFields
  | fs, .nil => .ok fs
  | fs, .cons key _ v r => do
    let (idx, fs) := ensure_field path seen fs key
    match fs.get? idx with
    | some ft =>
      let ft ← absorb c o ft v
      absorbFields c o path seen (fs.set idx ft) r
    | none => panic "unreachable: get_field_tracer_mut"
/-- `MapSerializer::AsStruct`: `serialize_key` then `serialize_value` for every entry -/
def absorbEntriesAsStruct (c : Code) (o : Options) (path : String) (seen : Nat) : TFields → SEntries → R TFields
  | fs, .nil => .ok fs
  | fs, .cons k v r => do
    let key ← serializeToString k
    let (idx, fs) := ensure_field path seen fs key
    match fs.get? idx with
    | some ft =>
      let ft ← absorb c o ft v
      absorbEntriesAsStruct c o path seen (fs.set idx ft) r
    | none => panic "unreachable: get_field_tracer_mut"
/-- `MapSerializer::AsMap` -/
def absorbEntriesAsMap (c : Code) (o : Options) : Tracer → Tracer → SEntries → R (Tracer × Tracer)
  | kt, vt, .nil => .ok (kt, vt)
  | kt, vt, .cons k v r => do
    let kt ← absorb c o kt k
    let vt ← absorb c o vt v
    absorbEntriesAsMap c o kt vt r
/-- `MapSerializer::AsStruct` under an arbitrary key/value call stream; `next_key` is the pending key -/
def absorbOpsAsStruct (c : Code) (o : Options) (path : String) (seen : Nat) : TFields → Option String → SMapOps → R TFields
  | fs, _, .nil => .ok fs
  | fs, _, .key k r => do
    let key ← serializeToString k
    absorbOpsAsStruct c o path seen fs (some key) r
  | fs, next_key, .value v r =>
    match next_key with
    | none => fail "serialize_value called without prior call to serialize_key"
    | some key => do
      let (idx, fs) := ensure_field path seen fs key
      match fs.get? idx with
      | some ft =>
        let ft ← absorb c o ft v
        absorbOpsAsStruct c o path seen (fs.set idx ft) none r
      | none => panic "unreachable: get_field_tracer_mut"
def absorbOpsAsMap (c : Code) (o : Options) : Tracer → Tracer → SMapOps → R (Tracer × Tracer)
  | kt, vt, .nil => .ok (kt, vt)
  | kt, vt, .key k r => do
    let kt ← absorb c o kt k
    absorbOpsAsMap c o kt vt r
  | kt, vt, .value v r => do
    let vt ← absorb c o vt v
    absorbOpsAsMap c o kt vt r
end

/-- the element loop of `OuterSequenceSerializer` -/
def absorbAll (c : Code) (o : Options) : Tracer → List SVal → R Tracer
  | t, [] => .ok t
  | t, x :: xs => do
    let t ← absorb c o t x
    absorbAll c o t xs

/-- `Tracer::from_samples` for an outer sequence with elements `xs` -/
def fromSamplesTracer (c : Code) (o : Options) (xs : List SVal) : R Tracer := do
  let t ← absorbAll c o (Tracer.new "$" "$") xs
  let t ← t.finish
  t.check o
  .ok t

/-- `SerdeArrowSchema::from_samples(xs, o)` -/
def fromSamples (c : Code) (o : Options) (xs : List SVal) : R (List Field) := do
  let t ← fromSamplesTracer c o xs
  t.to_schema o

/-- `OuterSequenceSerializer`: only `seq`, `tuple` and `tuple_variant` are accepted at the top -/
def fromSamplesTop (c : Code) (o : Options) : SVal → R (List Field)
  | .seq items => fromSamples c o items.toList
  | .tuple items => fromSamples c o items.toList
  | .tupleVariant _ _ _ items => fromSamples c o items.toList
  | _ => fail "Cannot trace non-sequences with `from_samples`"

/-- the pinned code (before the `fix:` commits) -/
def fromSamplesPinned (o : Options) (xs : List SVal) : R (List Field) := fromSamples .pinned o xs

/-- `Items(xs)`: every element wrapped as `Item { item: x }` -/
def itemsOf (xs : List SVal) : List SVal :=
  xs.map fun x => .record "Item" (.cons "item" 0 x .nil)

end SaModel.Trace
