import SaModel.Trace.FromSamples
/-
Model of `serde_arrow/src/internal/schema/from_type/mod.rs`.

`Ty` describes a Rust type definition as `#[derive(Deserialize)]` sees it (structs, tuple / newtype / unit structs,
enums with the four variant kinds, `Option`, `Vec`, tuples / arrays, maps, `String`, byte buffers, scalars, unit).
`explore o t ty` is ONE pass `T::deserialize(TraceAny(&mut t))`: the calls the derived impl makes (which `ensure_*` per
constructor), with `TraceStruct` / `TraceTupleStruct` / `TraceSeq` / `TraceMap` / `TraceEnum` as the helper functions.
An enum explores one variant per pass: the first whose tracer is not complete, else variant 0.
`fromTypeLoop` is the `while !tracer.is_complete()` loop with its budget.
Field and variant names are assumed unique within one struct / enum (a derive resolves an identifier to the first
field of that name; the model goes by position).
-/
namespace SaModel.Trace
open SaModel

mutual
inductive Ty where
  | unit | bool
  | int (t : IntTy)
  | f32 | f64 | char | string | bytes
  | option (t : Ty)
  | vec (t : Ty)
  | tuple (ts : Tys)
  | map (k v : Ty)
  | struct (name : String) (fields : TyFields)
  | tupleStruct (name : String) (ts : Tys)
  | newtypeStruct (name : String) (t : Ty)
  | unitStruct (name : String)
  | enum (name : String) (variants : TyVariants)
deriving Repr, DecidableEq
inductive Tys where
  | nil
  | cons (t : Ty) (rest : Tys)
deriving Repr, DecidableEq
inductive TyFields where
  | nil
  | cons (name : String) (t : Ty) (rest : TyFields)
deriving Repr, DecidableEq
inductive TyVariants where
  | nil
  | unit (name : String) (rest : TyVariants)
  | newtype (name : String) (t : Ty) (rest : TyVariants)
  | tuple (name : String) (ts : Tys) (rest : TyVariants)
  | struct (name : String) (fields : TyFields) (rest : TyVariants)
deriving Repr, DecidableEq
end

instance : Inhabited Ty := ⟨.unit⟩

def Tys.length : Tys → Nat
  | .nil => 0
  | .cons _ r => r.length + 1

def TyFields.names : TyFields → List String
  | .nil => []
  | .cons n _ r => n :: r.names

def TyVariants.names : TyVariants → List String
  | .nil => []
  | .unit n r | .newtype n _ r | .tuple n _ r | .struct n _ r => n :: r.names

def TyVariants.length : TyVariants → Nat
  | .nil => 0
  | .unit _ r | .newtype _ _ r | .tuple _ _ r | .struct _ _ r => r.length + 1

/-- `tracer.variants.iter().position(|opt| !opt.as_ref().unwrap().tracer.is_complete())`;
`none` models the `unwrap` on an unseen slot (unreachable from `from_type`: `ensure_union` fills every slot) -/
def Variants.firstIncomplete : Variants → Nat → R (Option Nat)
  | .nil, _ => .ok none
  | .absent _, _ => panic "called `Option::unwrap()` on a `None` value"
  | .present _ t r, i => if !t.is_complete then .ok (some i) else r.firstIncomplete (i + 1)

mutual
/-- one pass of `T::deserialize(TraceAny(tracer))` -/
def explore (c : Code) (o : Options) : Tracer → Ty → R Tracer
  | t, .unit => t.ensure_primitive o .null
  | t, .bool => t.ensure_primitive o .boolean
  | t, .int ty => t.ensure_primitive o (intDataType ty)
  | t, .f32 => t.ensure_primitive o .float32
  | t, .f64 => t.ensure_primitive o .float64
  | t, .char => t.ensure_primitive o .uint32
  | t, .string => t.ensure_utf8 o o.string_type none
  | t, .bytes => t.ensure_primitive o .largeBinary
  | t, .option ty => explore c o t.mark_nullable ty
  | t, .unitStruct _ => t.ensure_primitive o .null
  | t, .newtypeStruct _ ty => explore c o t ty
  | t, .vec ty => do
    let t ← t.ensure_list
    match t with
    | .list n p nl i =>
      let i ← explore c o i ty
      .ok (.list n p nl i)
    | _ => panic "unreachable: ensure_list"
  | t, .tuple ts => do
    let t ← t.ensure_tuple c ts.length
    match t with
    | .tuple n p nl fts =>
      let fts ← exploreTys c o fts 0 ts
      .ok (.tuple n p nl fts)
    | _ => panic "unreachable: ensure_tuple"
  | t, .tupleStruct _ ts => do
    let t ← t.ensure_tuple c ts.length
    match t with
    | .tuple n p nl fts =>
      let fts ← exploreTys c o fts 0 ts
      .ok (.tuple n p nl fts)
    | _ => panic "unreachable: ensure_tuple"
  | t, .map k v =>
    if o.map_as_struct then fail "Cannot trace maps as structs with `from_type`" else do
    let t ← t.ensure_map
    match t with
    | .map n p nl kt vt =>
      let kt ← explore c o kt k
      let vt ← explore c o vt v
      .ok (.map n p nl kt vt)
    | _ => panic "unreachable: ensure_map"
  | t, .struct _ fields => do
    let t ← t.ensure_struct c fields.names .struct
    match t with
    | .struct n p nl fs m s =>
      let fs ← exploreFields c o fs 0 fields
      .ok (.struct n p nl fs m s)
    | _ => panic "unreachable: ensure_struct"
  | t, .enum _ variants => do
    let t ← t.ensure_union variants.names
    match t with
    | .union n p nl vs =>
      let idx := (← vs.firstIncomplete 0).getD 0
      if idx ≥ vs.length then fail "Invalid variant index" else
      match vs.get? idx with
      | some (some (vn, vt)) =>
        let vt ← exploreVariant c o vt idx variants
        .ok (.union n p nl (vs.set idx vn vt))
      | _ => fail "Invalid state"
    | _ => panic "unreachable: ensure_union"
/-- `TraceTupleStruct::next_element_seed` for every element the derived visitor asks for -/
def exploreTys (c : Code) (o : Options) : Tracers → Nat → Tys → R Tracers
  | fts, _, .nil => .ok fts
  | fts, pos, .cons ty r =>
    match fts.get? pos with
    | some ft => do
      let ft ← explore c o ft ty
      exploreTys c o (fts.set pos ft) (pos + 1) r
    | none => fail "invalid length"
/-- `TraceStruct::next_key_seed` / `next_value_seed` for every declared field; `fields[pos]` is a raw index -/
def exploreFields (c : Code) (o : Options) : TFields → Nat → TyFields → R TFields
  | fs, _, .nil => .ok fs
  | fs, pos, .cons _ ty r =>
    match fs.get? pos with
    | some ft => do
      let ft ← explore c o ft ty
      exploreFields c o (fs.set pos ft) (pos + 1) r
    | none => panic "index out of bounds: fields[pos]"
/-- `visitor.visit_enum(TraceEnum { tracer, pos: idx, variant })`: the derived visitor resolves the identifier to
variant `idx` and calls the matching `VariantAccess` method -/
def exploreVariant (c : Code) (o : Options) : Tracer → Nat → TyVariants → R Tracer
  | _, _, .nil => fail "unknown variant"
  | vt, 0, .unit _ _ => vt.ensure_primitive o .null
  | vt, 0, .newtype _ ty _ => explore c o vt ty
  | vt, 0, .tuple _ ts _ => do
    let vt ← vt.ensure_tuple c ts.length
    match vt with
    | .tuple n p nl fts =>
      let fts ← exploreTys c o fts 0 ts
      .ok (.tuple n p nl fts)
    | _ => panic "unreachable: ensure_tuple"
  | vt, 0, .struct _ fields _ => do
    let vt ← vt.ensure_struct c fields.names .struct
    match vt with
    | .struct n p nl fs m s =>
      let fs ← exploreFields c o fs 0 fields
      .ok (.struct n p nl fs m s)
    | _ => panic "unreachable: ensure_struct"
  | vt, i + 1, .unit _ r => exploreVariant c o vt i r
  | vt, i + 1, .newtype _ _ r => exploreVariant c o vt i r
  | vt, i + 1, .tuple _ _ r => exploreVariant c o vt i r
  | vt, i + 1, .struct _ _ r => exploreVariant c o vt i r
end

/-- the loop of `Tracer::from_type`: `budget` passes at most -/
def fromTypeLoop (c : Code) (o : Options) (ty : Ty) : Nat → Tracer → R Tracer
  | budget, t =>
    if t.is_complete then .ok t
    else match budget with
      | 0 => fail "Could not determine schema from the type after {budget} iterations"
      | b + 1 => do
        let t ← explore c o t ty
        fromTypeLoop c o ty b t

/-- `Tracer::from_type::<T>(options)` -/
def fromTypeTracer (c : Code) (o : Options) (ty : Ty) : R Tracer := do
  let t ← fromTypeLoop c o ty o.from_type_budget (Tracer.new "$" "$")
  let t ← t.finish
  t.check o
  .ok t

/-- `SerdeArrowSchema::from_type::<T>(options)` -/
def fromType (c : Code) (o : Options) (ty : Ty) : R (List Field) := do
  let t ← fromTypeTracer c o ty
  t.to_schema o

/-! ### covering samples: every variant, `Some`, one element per collection -/

def maxOf (l : List Nat) : Nat := l.foldl max 1

mutual
/-- number of covering samples needed: an enum needs every variant with every covering sample of its payload -/
def width : Ty → Nat
  | .option t | .vec t | .newtypeStruct _ t => width t
  | .tuple ts | .tupleStruct _ ts => widthTys ts
  | .map k v => max (width k) (width v)
  | .struct _ fs => widthFields fs
  | .enum _ vs => max 1 (vs.length * widthVariants vs)
  | _ => 1
def widthTys : Tys → Nat
  | .nil => 1
  | .cons t r => max (width t) (widthTys r)
def widthFields : TyFields → Nat
  | .nil => 1
  | .cons _ t r => max (width t) (widthFields r)
def widthVariants : TyVariants → Nat
  | .nil => 1
  | .unit _ r => widthVariants r
  | .newtype _ t r => max (width t) (widthVariants r)
  | .tuple _ ts r => max (widthTys ts) (widthVariants r)
  | .struct _ fs r => max (widthFields fs) (widthVariants r)
end

mutual
/-- the `k`-th covering sample -/
def sampleAt : Ty → Nat → SVal
  | .unit, _ => .unit
  | .bool, _ => .bool true
  | .int t, _ => .int t 1
  | .f32, _ => .f32 1065353216
  | .f64, _ => .f64 4607182418800017408
  | .char, _ => .char 97
  | .string, _ => .str "s"
  | .bytes, _ => .bytes [1]
  | .option t, k => .some (sampleAt t k)
  | .vec t, k => .seq (.cons (sampleAt t k) .nil)
  | .tuple ts, k => .tuple (samplesTys ts k)
  | .tupleStruct n ts, k => .tupleStruct n (samplesTys ts k)
  | .map kt vt, k => .map (.cons (sampleAt kt k) (sampleAt vt k) .nil)
  | .struct n fs, k => .record n (samplesFields fs k)
  | .newtypeStruct n t, k => .newtypeStruct n (sampleAt t k)
  | .unitStruct n, _ => .unitStruct n
  | .enum n vs, k => if vs.length = 0 then .unit else sampleVariant n vs (k % vs.length) (k % vs.length) (k / vs.length)
def samplesTys : Tys → Nat → SVals
  | .nil, _ => .nil
  | .cons t r, k => .cons (sampleAt t k) (samplesTys r k)
def samplesFields : TyFields → Nat → SFields
  | .nil, _ => .nil
  | .cons n t r, k => .cons n 0 (sampleAt t k) (samplesFields r k)
/-- `idx` is the variant's index in the enum, `i` counts down to it -/
def sampleVariant (en : String) : TyVariants → Nat → Nat → Nat → SVal
  | .nil, _, _, _ => .unit
  | .unit n _, idx, 0, _ => .unitVariant en idx n
  | .newtype n t _, idx, 0, k => .newtypeVariant en idx n (sampleAt t k)
  | .tuple n ts _, idx, 0, k => .tupleVariant en idx n (samplesTys ts k)
  | .struct n fs _, idx, 0, k => .structVariant en idx n (samplesFields fs k)
  | .unit _ r, idx, i + 1, k => sampleVariant en r idx i k
  | .newtype _ _ r, idx, i + 1, k => sampleVariant en r idx i k
  | .tuple _ _ r, idx, i + 1, k => sampleVariant en r idx i k
  | .struct _ _ r, idx, i + 1, k => sampleVariant en r idx i k
end

/-- a covering sample collection for `ty` -/
def covering (ty : Ty) : List SVal := (List.range (width ty)).map (sampleAt ty)

end SaModel.Trace
