import SaModel.Trace.FromType
import SaModel.Trace.Mapping
/-
`from_type` after repo fix aaf3edc: `TraceAny` carries, beside the tracer, the number of TRANSPARENT wrappers
(`Option`, newtype structs) entered at the current position; `deserialize_option` / `deserialize_newtype_struct`
refuse to enter the 21st (`enter_transparent`: `self.1 >= MAX_TYPE_DEPTH` → the recursive-type error).  Every other
construction site of `TraceAny` (sequence element, tuple element, map key / value, struct field, enum variant) starts a
new position with the counter at 0 — and one path segment deeper, which the tracer's own depth limit sees.

Before the fix these two wrappers were followed without any bound: a type that recurses through them ONLY
(`struct Node(Option<Box<Node>>)`) made one pass of `T::deserialize(TraceAny(..))` recurse until the machine stack was
exhausted (process abort; finding C16-from-type-transparent-recursion, fixed).  A finite `Ty` cannot exhibit that
non-termination: on finite types the pinned pass is `explore` as it stands (`fromType`), and a recursive Rust type is
represented by its unrollings (Lemmas/C08NotWalkable.lean `unroll`).

Modelling decision: the counter is not threaded through `explore`; the refusal is hoisted to the front (`wrapDeep ty`:
somewhere in `ty` more than `MAX_TYPE_DEPTH` transparent wrappers are directly nested).  This is exact for success /
failure and for the value on success: a successful `from_type` has visited every position of the type (every variant of
every enum, every element / field), so it succeeds iff no position carries such a chain and `fromType` succeeds; when it
fails, WHICH error is reported may differ from the crate only if another refusal competes with this one in the same type.
-/
namespace SaModel.Trace
open SaModel

/-- number of transparent wrappers directly nested at the top of `ty` -/
def chain : Ty → Nat
  | .option t => chain t + 1
  | .newtypeStruct _ t => chain t + 1
  | _ => 0

mutual
/-- some position of `ty` carries more than `MAX_TYPE_DEPTH` directly nested transparent wrappers -/
def wrapDeep : Ty → Bool
  | .option t => decide (MAX_TYPE_DEPTH < chain t + 1) || wrapDeep t
  | .newtypeStruct _ t => decide (MAX_TYPE_DEPTH < chain t + 1) || wrapDeep t
  | .vec t => wrapDeep t
  | .tuple ts => wrapDeepTys ts
  | .tupleStruct _ ts => wrapDeepTys ts
  | .map k v => wrapDeep k || wrapDeep v
  | .struct _ fs => wrapDeepFields fs
  | .enum _ vs => wrapDeepVariants vs
  | _ => false
def wrapDeepTys : Tys → Bool
  | .nil => false
  | .cons t r => wrapDeep t || wrapDeepTys r
def wrapDeepFields : TyFields → Bool
  | .nil => false
  | .cons _ t r => wrapDeep t || wrapDeepFields r
def wrapDeepVariants : TyVariants → Bool
  | .nil => false
  | .unit _ r => wrapDeepVariants r
  | .newtype _ t r => wrapDeep t || wrapDeepVariants r
  | .tuple _ ts r => wrapDeepTys ts || wrapDeepVariants r
  | .struct _ fs r => wrapDeepFields fs || wrapDeepVariants r
end

/-- `SerdeArrowSchema::from_type::<T>(options)` after fix aaf3edc -/
def fromTypeG (c : Code) (o : Options) (ty : Ty) : R (List Field) :=
  if wrapDeep ty then fail "Too deeply nested type detected" else fromType c o ty

/-- the documented mapping with the same guard: a type is traceable only if no position nests more than
`MAX_TYPE_DEPTH` `Option` / newtype wrappers -/
def Spec.fromTypeSpecG (o : Options) (ty : Ty) : R (List Field) :=
  if wrapDeep ty then fail "not traceable from the type" else Spec.fromTypeSpec o ty

end SaModel.Trace
