import SaModel.Trace.FromSamples
/-
The leaf lattice of the tracer: what `from_samples` does at one position that only ever sees leaf samples
(primitives, `None`, `Some(leaf)`, unit).  A leaf state is `Unknown` or `Primitive(item_type)` plus the nullable
flag; `act` is `ensure_primitive_with_strategy` on such a state (the strategy is `None` on every path through
`TracerSerializer`), `mark` is `mark_nullable`.  `leafTypes` is the COMPLETE list of data types the serializer
passes to `ensure_primitive*` (one per leaf serde call, the four `guess_dates` types, both string types).
The lemmas `embed_*` tie these to the tracer functions for arbitrary name and path.
-/
namespace SaModel.Trace
open SaModel

/-- `(none, nl)` = `Unknown { nullable: nl }`, `(some ty, nl)` = `Primitive { item_type: ty, nullable: nl, strategy: None }` -/
abbrev LeafSt := Option DataType × Bool

def LeafSt.embed (name path : String) : LeafSt → Tracer
  | (none, nl) => .unknown name path nl
  | (some ty, nl) => .primitive name path nl ty none

/-- `ensure_primitive_with_strategy(ty, None)` on a leaf state -/
def act (o : Options) : LeafSt → DataType → R LeafSt
  | (none, nl), ty => .ok (some ty, nl || isNull ty)
  | (some pty, nl), ty =>
    match coerce_primitive_type o pty nl none ty none with
    | .ok (ty', nl', _) => .ok (some ty', nl')
    | .error e => .error e

/-- `mark_nullable` -/
def mark : LeafSt → LeafSt
  | (ty, _) => (ty, true)

/-- every data type `TracerSerializer` hands to `ensure_primitive*` under options `o`: strings are always of
`o.string_type`, so `Utf8` and `LargeUtf8` never meet at one position -/
def leafTypes (o : Options) : List DataType :=
  [.null, .boolean, .int8, .int16, .int32, .int64, .uint8, .uint16, .uint32, .uint64, .float32, .float64,
   o.string_type, .largeBinary,
   .timestamp .millisecond none, .timestamp .millisecond (some "UTC"), .time64 .nanosecond, .date32]

/-- every reachable leaf state: `Primitive(Null)` is always nullable (it is created with `nullable || is_null_type`
and the `Null` arms of `coerce_primitive_type` set the flag) -/
def leafStates (o : Options) : List LeafSt :=
  [(none, false), (none, true), (some .null, true)] ++
    ((leafTypes o).drop 1).flatMap fun ty => [(some ty, false), (some ty, true)]

/-- the data type a primitive leaf sample is traced as (one arm per leaf method of `TracerSerializer`) -/
def leafTypeOf (o : Options) : SVal → Option DataType
  | .bool _ => some .boolean
  | .int t _ => some (intDataType t)
  | .f32 _ => some .float32
  | .f64 _ => some .float64
  | .char _ => some .uint32
  | .unit => some .null
  | .unitStruct _ => some .null
  | .str s => some (strType o s)
  | .bytes _ => some .largeBinary
  | _ => none

/-- a sequence of leaf types absorbed one after the other at one position -/
def run (o : Options) : LeafSt → List DataType → R LeafSt
  | s, [] => .ok s
  | s, a :: r =>
    match act o s a with
    | .ok s' => run o s' r
    | .error e => .error e

/-- the three options `coerce_primitive_type` reads -/
def coerceOptions : List Options :=
  [false, true].flatMap fun cn => [false, true].flatMap fun ts => [false, true].map fun lu =>
    { coerce_numbers := cn, allow_to_string := ts, string_as_large_utf8 := lu }

/-- `coerce_primitive_type` only reads three options -/
def Options.coerceView (o : Options) : Options :=
  { coerce_numbers := o.coerce_numbers, allow_to_string := o.allow_to_string, string_as_large_utf8 := o.string_as_large_utf8 }

end SaModel.Trace
