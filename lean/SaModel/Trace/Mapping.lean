import SaModel.Trace.FromType
/-
`Spec.mapping`: the DOCUMENTED Rust → Arrow mapping of schema tracing as a function of the type, written from the
documentation (lib.rs "The mapping between Rust and Arrow types", the option docs of `TracingOptions`, the docs of
`Strategy` and of `overwrite`), independently of the tracer mechanics (no tracer tree, no passes, no `ensure_*`):

  unit → Null · bool → Boolean · iN/uN → IntN/UIntN · fN → FloatN · char → UInt32 · strings → LargeUtf8 ·
  byte buffers → LargeBinary · sequences → LargeList("element") · structs → Struct · tuples → Struct("0","1",…) tagged
  TupleAsStruct · maps → Map(entries{key,value}) · enums → dense Union, one child per variant in declaration order
  (unit variant → Null, newtype variant → its inner type, tuple / struct variants → Struct) · Option → nullable.

Options: `allow_null_fields` (Null fields are an error unless set; an enum whose variants all carry no data is an error
unless this or `enums_without_data_as_strings`), `map_as_struct` (maps cannot be traced from a type when set),
`sequence_as_large_list` (List instead of LargeList when unset), `strings_as_large_utf8` (Utf8 when unset),
`string_dictionary_encoding` (strings become Dictionary(UInt32, string type)), `enums_without_data_as_strings`
(data-less enums become Dictionary(UInt32, string type)), `from_type_budget` (an error when the type needs more
passes: one pass per enum variant, nested enums multiply out as sums), overwrites (the field at that path is replaced
as given; its name must be the traced name; an unknown path is an error).  Depth limit: a container at depth ≥ 20 is
the documented "too deeply nested" error.  The root must be a non-nullable struct-like type.
`coerce_numbers`, `allow_to_string` and `guess_dates` document effects on SAMPLES only and do not occur here.
-/
namespace SaModel.Trace.Spec
open SaModel SaModel.Trace

def childPath (path name : String) : String := path ++ "." ++ name

/-- a type that carries no data: traced as Null -/
def isNullTy : Ty → Bool
  | .unit | .unitStruct _ => true
  | .option t | .newtypeStruct _ t => isNullTy t
  | _ => false

/-- an enum "without data": every variant is a unit variant (or wraps a data-less type) -/
def withoutData : TyVariants → Bool
  | .nil => true
  | .unit _ r => withoutData r
  | .newtype _ t r => isNullTy t && withoutData r
  | .tuple _ _ _ => false
  | .struct _ _ _ => false

def tooDeep (path : String) : Bool := countDots path ≥ MAX_TYPE_DEPTH

def stringField (o : Options) (name : String) (nullable : Bool) : Field :=
  if o.string_dictionary_encoding then .mk name (.dictionary .uint32 o.string_type) nullable []
  else .mk name o.string_type nullable []

def nullField (o : Options) (name : String) : R Field :=
  if o.allow_null_fields then .ok (.mk name .null true []) else fail "null field"

def tupleMeta : Metadata := [(STRATEGY_KEY, "TupleAsStruct")]

/-- an overwrite at `path` replaces the field as given (its name must be the traced one) -/
def overwritten (o : Options) (name path : String) (k : Unit → R Field) : R Field :=
  match o.overwrites.find? (fun kv => kv.1 = path) with
  | some (_, f) => if f.name = name then .ok f else fail "overwrite with a different name"
  | none => k ()

mutual
/-- the documented field for a value of type `ty` called `name` at `path` -/
def mapping (o : Options) (name path : String) (nullable : Bool) : Ty → R Field
  | .unit => overwritten o name path fun _ => nullField o name
  | .unitStruct _ => overwritten o name path fun _ => nullField o name
  | .bool => overwritten o name path fun _ => .ok (.mk name .boolean nullable [])
  | .int t => overwritten o name path fun _ => .ok (.mk name (intDataType t) nullable [])
  | .f32 => overwritten o name path fun _ => .ok (.mk name .float32 nullable [])
  | .f64 => overwritten o name path fun _ => .ok (.mk name .float64 nullable [])
  | .char => overwritten o name path fun _ => .ok (.mk name .uint32 nullable [])
  | .string => overwritten o name path fun _ => .ok (stringField o name nullable)
  | .bytes => overwritten o name path fun _ => .ok (.mk name .largeBinary nullable [])
  | .option t => mapping o name path true t
  | .newtypeStruct _ t => mapping o name path nullable t
  | .vec t => overwritten o name path fun _ => do
    let item ← mapping o "element" (childPath path "element") false t
    .ok (.mk name (if o.sequence_as_large_list then .largeList item else .list item) nullable [])
  | .tuple ts => overwritten o name path fun _ => do
    let fs ← mappingTys o path 0 ts
    .ok (.mk name (.struct (Fields.ofList fs)) nullable tupleMeta)
  | .tupleStruct _ ts => overwritten o name path fun _ => do
    let fs ← mappingTys o path 0 ts
    .ok (.mk name (.struct (Fields.ofList fs)) nullable tupleMeta)
  | .map k v => overwritten o name path fun _ => do
    let kf ← mapping o "key" (childPath path "key") false k
    let vf ← mapping o "value" (childPath path "value") false v
    .ok (.mk name (.map (.mk "entries" (.struct (Fields.ofList [kf, vf])) false []) false) nullable [])
  | .struct _ fs => overwritten o name path fun _ => do
    let fields ← mappingFields o path fs
    .ok (.mk name (.struct (Fields.ofList fields)) nullable [])
  | .enum _ vs => overwritten o name path fun _ =>
    if withoutData vs && o.enums_without_data_as_strings then
      .ok (.mk name (.dictionary .uint32 o.string_type) nullable [])
    else if withoutData vs && !o.allow_null_fields then fail "enum without data"
    else do
      let children ← mappingVariants o path 0 vs
      .ok (.mk name (.union (UFields.ofList children) .dense) nullable [])
def mappingTys (o : Options) (path : String) : Nat → Tys → R (List Field)
  | _, .nil => .ok []
  | i, .cons t r => do
    let f ← mapping o (toString i) (childPath path (toString i)) false t
    let fs ← mappingTys o path (i + 1) r
    .ok (f :: fs)
def mappingFields (o : Options) (path : String) : TyFields → R (List Field)
  | .nil => .ok []
  | .cons n t r => do
    let f ← mapping o n (childPath path n) false t
    let fs ← mappingFields o path r
    .ok (f :: fs)
/-- union children: type id = declaration index (an `i8`) -/
def mappingVariants (o : Options) (path : String) : Nat → TyVariants → R (List (Int × Field))
  | _, .nil => .ok []
  | i, .unit n r => do
    if i > 127 then fail "more than 128 variants"
    let f ← overwritten o n (childPath path n) fun _ => nullField o n
    let fs ← mappingVariants o path (i + 1) r
    .ok ((Int.ofNat i, f) :: fs)
  | i, .newtype n t r => do
    if i > 127 then fail "more than 128 variants"
    let f ← mapping o n (childPath path n) false t
    let fs ← mappingVariants o path (i + 1) r
    .ok ((Int.ofNat i, f) :: fs)
  | i, .tuple n ts r => do
    if i > 127 then fail "more than 128 variants"
    let f ← overwritten o n (childPath path n) fun _ => do
      let cs ← mappingTys o (childPath path n) 0 ts
      .ok (.mk n (.struct (Fields.ofList cs)) false tupleMeta)
    let fs ← mappingVariants o path (i + 1) r
    .ok ((Int.ofNat i, f) :: fs)
  | i, .struct n fields r => do
    if i > 127 then fail "more than 128 variants"
    let f ← overwritten o n (childPath path n) fun _ => do
      let cs ← mappingFields o (childPath path n) fields
      .ok (.mk n (.struct (Fields.ofList cs)) false [])
    let fs ← mappingVariants o path (i + 1) r
    .ok ((Int.ofNat i, f) :: fs)
end

mutual
/-- can the type be walked at all: no container beyond the depth limit, no map under `map_as_struct`, no enum
without variants -/
def walkable (o : Options) (path : String) : Ty → Bool
  | .option t | .newtypeStruct _ t => walkable o path t
  | .vec t => !tooDeep path && walkable o (childPath path "element") t
  | .tuple ts | .tupleStruct _ ts => !tooDeep path && walkableTys o path 0 ts
  | .map k v => !o.map_as_struct && !tooDeep path && walkable o (childPath path "key") k && walkable o (childPath path "value") v
  | .struct _ fs => !tooDeep path && walkableFields o path fs
  | .enum _ vs => !tooDeep path && vs.length != 0 && walkableVariants o path vs
  | _ => true
def walkableTys (o : Options) (path : String) : Nat → Tys → Bool
  | _, .nil => true
  | i, .cons t r => walkable o (childPath path (toString i)) t && walkableTys o path (i + 1) r
def walkableFields (o : Options) (path : String) : TyFields → Bool
  | .nil => true
  | .cons n t r => walkable o (childPath path n) t && walkableFields o path r
def walkableVariants (o : Options) (path : String) : TyVariants → Bool
  | .nil => true
  | .unit _ r => walkableVariants o path r
  | .newtype n t r => walkable o (childPath path n) t && walkableVariants o path r
  | .tuple n ts r => !tooDeep (childPath path n) && walkableTys o (childPath path n) 0 ts && walkableVariants o path r
  | .struct n fs r => !tooDeep (childPath path n) && walkableFields o (childPath path n) fs && walkableVariants o path r
end

mutual
/-- passes the documented exploration needs: one per enum variant (sum over the variants of what each payload needs),
everything else is walked in one pass -/
def passes : Ty → Nat
  | .option t | .vec t | .newtypeStruct _ t => passes t
  | .tuple ts | .tupleStruct _ ts => passesTys ts
  | .map k v => max (passes k) (passes v)
  | .struct _ fs => passesFields fs
  | .enum _ vs => passesVariants vs
  | _ => 1
def passesTys : Tys → Nat
  | .nil => 1
  | .cons t r => max (passes t) (passesTys r)
def passesFields : TyFields → Nat
  | .nil => 1
  | .cons _ t r => max (passes t) (passesFields r)
def passesVariants : TyVariants → Nat
  | .nil => 0
  | .unit _ r => 1 + passesVariants r
  | .newtype _ t r => passes t + passesVariants r
  | .tuple _ ts r => passesTys ts + passesVariants r
  | .struct _ fs r => passesFields fs + passesVariants r
end

mutual
/-- every path of the traced tree (what an overwrite may name) -/
def tyPaths (path : String) : Ty → List String
  | .option t | .newtypeStruct _ t => tyPaths path t
  | .vec t => path :: tyPaths (childPath path "element") t
  | .tuple ts | .tupleStruct _ ts => path :: tyPathsTys path 0 ts
  | .map k v => path :: (tyPaths (childPath path "key") k ++ tyPaths (childPath path "value") v)
  | .struct _ fs => path :: tyPathsFields path fs
  | .enum _ vs => path :: tyPathsVariants path vs
  | _ => [path]
def tyPathsTys (path : String) : Nat → Tys → List String
  | _, .nil => []
  | i, .cons t r => tyPaths (childPath path (toString i)) t ++ tyPathsTys path (i + 1) r
def tyPathsFields (path : String) : TyFields → List String
  | .nil => []
  | .cons n t r => tyPaths (childPath path n) t ++ tyPathsFields path r
def tyPathsVariants (path : String) : TyVariants → List String
  | .nil => []
  | .unit n r => childPath path n :: tyPathsVariants path r
  | .newtype n t r => tyPaths (childPath path n) t ++ tyPathsVariants path r
  | .tuple n ts r => (childPath path n :: tyPathsTys (childPath path n) 0 ts) ++ tyPathsVariants path r
  | .struct n fs r => (childPath path n :: tyPathsFields (childPath path n) fs) ++ tyPathsVariants path r
end

/-- the documented result of `from_type::<T>(options)` -/
def fromTypeSpec (o : Options) (ty : Ty) : R (List Field) :=
  if !walkable o "$" ty then fail "not traceable from the type"
  else if passes ty > o.from_type_budget then fail "budget"
  else if !(o.overwrites.all fun kv => (tyPaths "$" ty).contains kv.1) then fail "unknown overwrite path"
  else do
    let root ← mapping o "$" "$" false ty
    if root.nullable then fail "the root cannot be nullable"
    else match root.dataType with
      | .struct children => .ok children.toList
      | _ => fail "the root must be a struct"

end SaModel.Trace.Spec
