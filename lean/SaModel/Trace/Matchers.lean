/-
Model of the four string matchers of `serde_arrow/src/internal/chrono.rs` (module `parsing`) that
`guess_dates` consults in `TracerSerializer::serialize_str`:
`matches_naive_datetime`, `matches_utc_datetime`, `matches_naive_time`, `matches_naive_date`.
A parser is `List Char → Option (List Char)` (the rest on success); `matches` = success with empty rest.
Only the *shape* is checked by the Rust code (digit counts and separators, no calendar validity).
-/
namespace SaModel.Trace.Matchers

/-- `DIGIT`: the ten ASCII digits -/
def isDigit (c : Char) : Bool := '0' ≤ c && c ≤ '9'

def match_char (c : Char) : List Char → Option (List Char)
  | d :: r => if d == c then some r else none
  | [] => none

def match_optional_sign : List Char → Option (List Char)
  | '+' :: r => some r
  | '-' :: r => some r
  | s => some s

def match_one_or_more_digits : List Char → Option (List Char)
  | c :: r => if isDigit c then some (r.dropWhile isDigit) else none
  | [] => none

def match_one_or_two_digits : List Char → Option (List Char)
  | c :: r =>
    if isDigit c then
      match r with
      | d :: r' => if isDigit d then some r' else some r
      | [] => some []
    else none
  | [] => none

def match_naive_date (s : List Char) : Option (List Char) := do
  let s ← match_optional_sign s
  let s ← match_one_or_more_digits s
  let s ← match_char '-' s
  let s ← match_one_or_two_digits s
  let s ← match_char '-' s
  match_one_or_two_digits s

def match_naive_time (s : List Char) : Option (List Char) := do
  let s ← match_one_or_two_digits s
  let s ← match_char ':' s
  let s ← match_one_or_two_digits s
  let s ← match_char ':' s
  let s ← match_one_or_two_digits s
  match s with
  | '.' :: r => match_one_or_more_digits r
  | s => some s

/-- `s.strip_prefix(sep)` with a slice of chars: any one of them -/
def strip_any (seps : List Char) : List Char → Option (List Char)
  | c :: r => if seps.contains c then some r else none
  | [] => none

def match_naive_datetime_with_sep (seps : List Char) (s : List Char) : Option (List Char) := do
  let s ← match_naive_date s
  let s ← strip_any seps s
  match_naive_time s

def match_naive_datetime (s : List Char) : Option (List Char) :=
  match_naive_datetime_with_sep ['T'] s

/-- `match_utc_timezone`: `"Z"`, `"+0000"`, `"+00:00"` tried in this order -/
def match_utc_timezone : List Char → Option (List Char)
  | 'Z' :: r => some r
  | '+' :: '0' :: '0' :: '0' :: '0' :: r => some r
  | '+' :: '0' :: '0' :: ':' :: '0' :: '0' :: r => some r
  | _ => none

def match_utc_datetime (s : List Char) : Option (List Char) := do
  let s ← match_naive_datetime_with_sep ['T', ' '] s
  match_utc_timezone s

/-- `ParseResult::matches` -/
def isMatch (r : Option (List Char)) : Bool :=
  match r with
  | some [] => true
  | _ => false

def matches_naive_datetime (s : String) : Bool := isMatch (match_naive_datetime s.toList)
def matches_utc_datetime (s : String) : Bool := isMatch (match_utc_datetime s.toList)
def matches_naive_date (s : String) : Bool := isMatch (match_naive_date s.toList)
def matches_naive_time (s : String) : Bool := isMatch (match_naive_time s.toList)

end SaModel.Trace.Matchers
