import SaModel.Basic.Outcome
import SaModel.Data.Schema
/-
Model of `serde_arrow/src/internal/schema/tracing_options.rs` and `strategy.rs`.
`TracingOptions` is shared (through an `Arc`) by every tracer node, so the model passes the record `o`
as a parameter instead of storing it in the nodes.  `tracing_mode` only selects error message text and is
not modelled.  `overwrites` is a `HashMap<String, Field>` keyed by `"$." ++ path`: an association list in
which a later insertion of the same key replaces the earlier one (`Options.overwrite`).
-/
namespace SaModel.Trace
open SaModel

inductive Strategy where
  | inconsistentTypes | tupleAsStruct | mapAsStruct | unknownVariant
deriving Repr, BEq, DecidableEq, Inhabited

/-- `impl Display for Strategy` -/
def Strategy.toString : Strategy → String
  | .inconsistentTypes => "InconsistentTypes"
  | .tupleAsStruct => "TupleAsStruct"
  | .mapAsStruct => "MapAsStruct"
  | .unknownVariant => "UnknownVariant"

structure Options where
  allow_null_fields : Bool := false
  map_as_struct : Bool := true
  sequence_as_large_list : Bool := true
  string_as_large_utf8 : Bool := true
  string_dictionary_encoding : Bool := false
  coerce_numbers : Bool := false
  allow_to_string : Bool := false
  guess_dates : Bool := false
  from_type_budget : Nat := 100
  enums_without_data_as_strings : Bool := false
  overwrites : List (String × Field) := []
deriving Repr, DecidableEq

instance : Inhabited Options := ⟨{}⟩

/-- `TracingOptions::string_type` -/
def Options.string_type (o : Options) : DataType :=
  if o.string_as_large_utf8 then .largeUtf8 else .utf8

/-- `TracingOptions::get_overwrite` -/
def Options.get_overwrite (o : Options) (path : String) : Option Field :=
  match o.overwrites.find? (fun kv => kv.1 == path) with
  | some kv => some kv.2
  | none => none

/-- `TracingOptions::overwrite(path, field)` (the field is already a valid `Field`; `transmute_field` is C09's) -/
def Options.overwrite (o : Options) (path : String) (f : Field) : Options :=
  let key := "$." ++ path
  { o with overwrites := (o.overwrites.filter (fun kv => kv.1 != key)) ++ [(key, f)] }

/-- `path.strip_prefix("$.").unwrap_or(path)` is only used in messages -/
def MAX_TYPE_DEPTH : Nat := 20

end SaModel.Trace
