import SaModel.Trace.Options
import SaModel.Data.SVal
/-
Specification predicates for the tracing properties, written independently of the operational model
(`Tracer`, `absorb`): they speak only about *outputs* (traced schemas, values read back).

* C07: `schemaEquiv` — equality of schemas up to the order of the children of plain structs (a struct traced from
  maps carries the `MapAsStruct` strategy and is sorted, a tuple carries `TupleAsStruct` and is positional: both
  are compared in order); `orderIndependent` — what a family of outcomes of re-ordered / repeated sample lists
  must satisfy.
* C06: `reproduces f x r` — the value `r` read back from a column of field `f` is the sample `x`
  (missing ≈ null, numbers by value, the documented coercions applied).
-/
namespace SaModel.Trace.Spec
open SaModel

/-! ### C07 -/

def insertField (f : Field) : List Field → List Field
  | [] => [f]
  | g :: r => if f.name < g.name then f :: g :: r else g :: insertField f r

def sortFields (fs : List Field) : List Field := fs.foldl (fun acc f => insertField f acc) []

mutual
/-- canonical representative: children of structs without a strategy are sorted by name -/
def normField : Field → Field
  | .mk n dt nl md => .mk n (normType (md.isEmpty) dt) nl md
def normType (plain : Bool) : DataType → DataType
  | .struct fs =>
    let fs' := normFields fs
    if plain then .struct (Fields.ofList (sortFields fs')) else .struct (Fields.ofList fs')
  | .list f => .list (normField f)
  | .largeList f => .largeList (normField f)
  | .fixedSizeList f n => .fixedSizeList (normField f) n
  | .map f s => .map (normField f) s
  | .union ufs m => .union (normUFields ufs) m
  | d => d
def normFields : Fields → List Field
  | .nil => []
  | .cons f r => normField f :: normFields r
def normUFields : UFields → UFields
  | .nil => .nil
  | .cons i f r => .cons i (normField f) (normUFields r)
end

/-- the root record is a plain struct: its fields are compared as a set too -/
def normSchema (fs : List Field) : List Field := sortFields (fs.map normField)

def schemaEquiv (a b : List Field) : Bool := decide (normSchema a = normSchema b)

/-- outcomes of tracing re-orderings / repetitions of one sample collection: `some s` = success -/
def allEquiv : List (Option (List Field)) → Bool
  | [] => true
  | none :: r => allEquiv r
  | some s :: r => r.all (fun x => match x with | some s' => schemaEquiv s s' | none => true) && allEquiv r

def sameSuccess (outs : List (Option (List Field))) : Bool :=
  outs.all (·.isSome) || outs.all (·.isNone)

/-- C07 on observed outcomes: all successful runs agree (up to the allowed field order); unless
`allow_to_string`, success itself does not depend on the order -/
def orderIndependent (allow_to_string : Bool) (outs : List (Option (List Field))) : Bool :=
  allEquiv outs && (allow_to_string || sameSuccess outs)

/-! ### C06 -/

/-- a value read back from arrays (what a self-describing `Deserialize` target sees) -/
inductive LV where
  | null
  | bool (b : Bool)
  | int (v : Int)
  | float (bits : Nat)            -- as f64 bit pattern (f32 widened exactly)
  | str (s : String)
  | bytes (b : List UInt8)
  | list (xs : List LV)
  | map (es : List (LV × LV))
  | variant (name : String) (c : LV)
deriving Repr, BEq, Inhabited

def isStringy : DataType → Bool
  | .utf8 | .largeUtf8 | .utf8View => true
  | .dictionary _ v => v == .utf8 || v == .largeUtf8
  | _ => false

def isTemporal : DataType → Bool
  | .date32 | .date64 | .timestamp _ _ | .time32 _ | .time64 _ => true
  | _ => false

def isIntType : DataType → Bool
  | .int8 | .int16 | .int32 | .int64 | .uint8 | .uint16 | .uint32 | .uint64 => true
  | _ => false

def widen32 (bits : Nat) : Nat := (Float32.ofBits bits.toUInt32).toFloat.toBits.toNat

def lookupKey (es : List (LV × LV)) (k : String) : Option LV :=
  match es.find? (fun e => e.1 == .str k) with
  | some e => some e.2
  | none => none

def childField (dt : DataType) : Field :=
  match dt with
  | .list f | .largeList f | .fixedSizeList f _ => f
  | _ => default

def structFields (dt : DataType) : List Field :=
  match dt with
  | .struct fs => fs.toList
  | _ => []

def mapKV (dt : DataType) : Field × Field :=
  match dt with
  | .map e _ => match structFields e.dataType with
    | [k, v] => (k, v)
    | _ => (default, default)
  | _ => (default, default)

def unionField (dt : DataType) (idx : Nat) : Option Field :=
  match dt with
  | .union ufs _ => (ufs.toList.find? (fun e => e.1 == Int.ofNat idx)).map (·.2)
  | _ => none

def sfieldKeys : SFields → List String
  | .nil => []
  | .cons k _ _ r => k :: sfieldKeys r

def sentryKeys : SEntries → List (Option String)
  | .nil => []
  | .cons (.str k) _ r => some k :: sentryKeys r
  | .cons _ _ r => none :: sentryKeys r

/-- schema fields the sample does not mention must read back as null -/
def restNull (fs : List Field) (present : List String) (es : List (LV × LV)) : Bool :=
  fs.all fun f => present.contains f.name || lookupKey es f.name == some .null

mutual
/-- `reproduces f x r`: the sample `x`, stored in a column of field `f`, reads back as `r` -/
def reproduces (f : Field) : SVal → LV → Bool
  | .none, r => r == .null
  | .unit, r => r == .null
  | .unitStruct _, r => r == .null
  | .some v, r => reproduces f v r
  | .newtypeStruct _ v, r => reproduces f v r
  | .bool b, r =>
    if f.dataType == .boolean then r == .bool b
    else isStringy f.dataType && r == .str (toString b)
  | .int _ v, r =>
    if isIntType f.dataType then r == .int v
    else if f.dataType == .float64 then r == .float (Float.ofInt v).toBits.toNat
    else if f.dataType == .float32 then r == .float (Float32.ofInt v).toFloat.toBits.toNat
    else isStringy f.dataType && r == .str (toString v)
  | .f32 bits, r =>
    if f.dataType == .float32 || f.dataType == .float64 then r == .float (widen32 bits)
    else isStringy f.dataType && (match r with | .str _ => true | _ => false)
  | .f64 bits, r =>
    if f.dataType == .float64 then r == .float bits
    else isStringy f.dataType && (match r with | .str _ => true | _ => false)
  | .char c, r =>
    if isIntType f.dataType then r == .int (Int.ofNat c)
    else if f.dataType == .float64 then r == .float (Float.ofInt (Int.ofNat c)).toBits.toNat
    else if f.dataType == .float32 then r == .float (Float32.ofInt (Int.ofNat c)).toFloat.toBits.toNat
    else isStringy f.dataType && (match r with | .str _ => true | _ => false)
  | .str s, r =>
    if isStringy f.dataType then r == .str s
    else isTemporal f.dataType   -- guess_dates: the stored instant is C14's business
  | .bytes b, r =>
    r == .bytes b || r == .list (b.map fun x => .int (Int.ofNat x.toNat))
  | .seq items, r =>
    match r with
    | .list rs => reproducesSeq (childField f.dataType) items rs
    | _ => false
  | .tuple items, r =>
    match r with
    | .map es => reproducesTuple (structFields f.dataType) 0 items es
    | _ => false
  | .tupleStruct _ items, r =>
    match r with
    | .map es => reproducesTuple (structFields f.dataType) 0 items es
    | _ => false
  | .record _ fields, r =>
    match r with
    | .map es =>
      let keys := sfieldKeys fields
      keys.eraseDups.length != keys.length ||
        (reproducesFields (structFields f.dataType) fields es && restNull (structFields f.dataType) keys es)
    | _ => false
  | .map entries, r =>
    match f.dataType, r with
    | .struct fs, .map es =>
      let keys := (sentryKeys entries).filterMap id
      keys.eraseDups.length != keys.length ||
        (reproducesEntriesS fs.toList entries es && restNull fs.toList keys es)
    | .map _ _, .map es => reproducesEntriesM (mapKV f.dataType).1 (mapKV f.dataType).2 entries es
    | _, _ => false
  | .mapRaw _, _ => true     -- malformed streams are outside C06
  | .unitVariant _ idx vn, r =>
    if isStringy f.dataType then r == .str vn
    else (unionField f.dataType idx).isSome && r == .variant vn .null
  | .newtypeVariant _ idx vn v, r =>
    match unionField f.dataType idx, r with
    | some vf, .variant n c => n == vn && reproduces vf v c
    | _, _ => false
  | .tupleVariant _ idx vn items, r =>
    match unionField f.dataType idx, r with
    | some vf, .variant n (.map es) => n == vn && reproducesTuple (structFields vf.dataType) 0 items es
    | _, _ => false
  | .structVariant _ idx vn fields, r =>
    match unionField f.dataType idx, r with
    | some vf, .variant n (.map es) =>
      n == vn && reproducesFields (structFields vf.dataType) fields es
        && restNull (structFields vf.dataType) (sfieldKeys fields) es
    | _, _ => false
def reproducesSeq (f : Field) : SVals → List LV → Bool
  | .nil, [] => true
  | .cons v r, x :: xs => reproduces f v x && reproducesSeq f r xs
  | _, _ => false
def reproducesTuple (fs : List Field) : Nat → SVals → List (LV × LV) → Bool
  | pos, .nil, es => (fs.drop pos).all fun f => lookupKey es f.name == some .null
  | pos, .cons v r, es =>
    match fs[pos]?, lookupKey es (toString pos) with
    | some f, some x => reproduces f v x && reproducesTuple fs (pos + 1) r es
    | _, _ => false
def reproducesFields (fs : List Field) : SFields → List (LV × LV) → Bool
  | .nil, _ => true
  | .cons k _ v r, es =>
    match fs.find? (·.name == k), lookupKey es k with
    | some f, some x => reproduces f v x && reproducesFields fs r es
    | _, _ => false
def reproducesEntriesS (fs : List Field) : SEntries → List (LV × LV) → Bool
  | .nil, _ => true
  | .cons (.str k) v r, es =>
    match fs.find? (·.name == k), lookupKey es k with
    | some f, some x => reproduces f v x && reproducesEntriesS fs r es
    | _, _ => false
  | .cons _ _ _, _ => false
def reproducesEntriesM (kf vf : Field) : SEntries → List (LV × LV) → Bool
  | .nil, [] => true
  | .cons k v r, (rk, rv) :: es => reproduces kf k rk && reproduces vf v rv && reproducesEntriesM kf vf r es
  | _, _ => false
end

/-- a whole collection: row `i` of the record batch reproduces sample `i` (the root is a struct over `fields`) -/
def reproducesAll (fields : List Field) : List SVal → List LV → Bool
  | [], [] => true
  | x :: xs, r :: rs => reproduces (.mk "$" (.struct (Fields.ofList fields)) false []) x r && reproducesAll fields xs rs
  | _, _ => false

mutual
/-- documented exclusion 1: a nullable enum-typed position -/
def hasNullableUnion : Field → Bool
  | .mk _ dt nl _ => (nl && (match dt with | .union _ _ => true | _ => false)) || typeHasNullableUnion dt
def typeHasNullableUnion : DataType → Bool
  | .struct fs => fieldsHaveNullableUnion fs
  | .list f | .largeList f | .fixedSizeList f _ | .map f _ => hasNullableUnion f
  | .union ufs _ => ufieldsHaveNullableUnion ufs
  | _ => false
def fieldsHaveNullableUnion : Fields → Bool
  | .nil => false
  | .cons f r => hasNullableUnion f || fieldsHaveNullableUnion r
def ufieldsHaveNullableUnion : UFields → Bool
  | .nil => false
  | .cons _ f r => hasNullableUnion f || ufieldsHaveNullableUnion r
end

end SaModel.Trace.Spec
