import SaModel.Trace.Options
/-
Model of `serde_arrow/src/internal/schema/tracer.rs`: the `Tracer` tree and its methods, function by function.

* The seven node kinds carry `name`, `path`, `nullable` like the Rust structs; the shared `options` are a parameter.
* `StructTracer.index : HashMap<String, usize>` is a function of `fields` in every state `from_samples` can reach
  (names unique, inserted together with the field): the model looks names up in `fields` (`TFields.indexOf`,
  first match).  `from_type` never consults the index.
* `finish` only walks the tree (`Ok(())` everywhere): `Tracer.finish t = ok t`.
* Error messages are fixed strings naming the failing site; only the class (ok / err / panic) is compared.
* `ensure_variant` resizes `variants` up to the requested index (finding #29: unbounded allocation for a huge
  index).  The executable model refuses indices ≥ `VARIANT_ALLOC_LIMIT` with `panic "alloc"` instead of building
  the list; the correspondence generators stay far below.
-/
namespace SaModel.Trace
open SaModel

/-- which code is modelled: the repaired tree (`Code.fixed`, what `/repo` contains after the `fix:` commits) or
the pinned one (`Code.pinned`).  One flag per repaired defect. -/
structure Code where
  /-- fix #26: `ensure_struct` on an existing struct switches to map mode when the new sample is a map -/
  struct_mode_join : Bool := true
  /-- fix #25: `ensure_tuple` on an existing tuple marks the fields a shorter tuple lacks as nullable and adds the
  fields a longer tuple brings as nullable fields -/
  tuple_arity_nullable : Bool := true
deriving Repr, DecidableEq

def Code.fixed : Code := {}
def Code.pinned : Code := { struct_mode_join := false, tuple_arity_nullable := false }

inductive StructMode where
  | struct | map
deriving Repr, BEq, DecidableEq, Inhabited

mutual
inductive Tracer where
  | unknown (name path : String) (nullable : Bool)
  | primitive (name path : String) (nullable : Bool) (item_type : DataType) (strategy : Option Strategy)
  | list (name path : String) (nullable : Bool) (item_tracer : Tracer)
  | map (name path : String) (nullable : Bool) (key_tracer value_tracer : Tracer)
  | struct (name path : String) (nullable : Bool) (fields : TFields) (mode : StructMode) (seen_samples : Nat)
  | tuple (name path : String) (nullable : Bool) (field_tracers : Tracers)
  | union (name path : String) (nullable : Bool) (variants : Variants)
deriving Repr, DecidableEq
inductive Tracers where
  | nil
  | cons (t : Tracer) (rest : Tracers)
deriving Repr, DecidableEq
/-- `Vec<StructField>` -/
inductive TFields where
  | nil
  | cons (name : String) (last_seen_in_sample : Nat) (tracer : Tracer) (rest : TFields)
deriving Repr, DecidableEq
/-- `Vec<Option<UnionVariant>>` -/
inductive Variants where
  | nil
  | absent (rest : Variants)
  | present (name : String) (tracer : Tracer) (rest : Variants)
deriving Repr, DecidableEq
end

instance : Inhabited Tracer := ⟨.unknown "" "" false⟩

/-- `Tracer::new` -/
def Tracer.new (name path : String) : Tracer := .unknown name path false

def Tracer.name : Tracer → String
  | .unknown n _ _ | .primitive n _ _ _ _ | .list n _ _ _ | .map n _ _ _ _ | .struct n _ _ _ _ _
  | .tuple n _ _ _ | .union n _ _ _ => n

def Tracer.path : Tracer → String
  | .unknown _ p _ | .primitive _ p _ _ _ | .list _ p _ _ | .map _ p _ _ _ | .struct _ p _ _ _ _
  | .tuple _ p _ _ | .union _ p _ _ => p

def Tracer.nullable : Tracer → Bool
  | .unknown _ _ n | .primitive _ _ n _ _ | .list _ _ n _ | .map _ _ n _ _ | .struct _ _ n _ _ _
  | .tuple _ _ n _ | .union _ _ n _ => n

/-- `tracer.nullable = b` through `dispatch_tracer!` -/
def Tracer.set_nullable (b : Bool) : Tracer → Tracer
  | .unknown n p _ => .unknown n p b
  | .primitive n p _ ty st => .primitive n p b ty st
  | .list n p _ i => .list n p b i
  | .map n p _ k v => .map n p b k v
  | .struct n p _ fs m s => .struct n p b fs m s
  | .tuple n p _ ts => .tuple n p b ts
  | .union n p _ vs => .union n p b vs

/-- `Tracer::mark_nullable` -/
def Tracer.mark_nullable (t : Tracer) : Tracer := t.set_nullable true

/-- number of `'.'` in a path -/
def countDots (s : String) : Nat := (s.toList.filter (· == '.')).length

/-- `Tracer::get_depth` -/
def Tracer.get_depth (t : Tracer) : Nat := countDots t.path

/-- `Tracer::enforce_depth_limit` -/
def Tracer.enforce_depth_limit (t : Tracer) : R Unit :=
  if t.get_depth ≥ MAX_TYPE_DEPTH then fail "Too deeply nested type detected" else .ok ()

/-- the guard `Unknown(_) | Primitive(item_type == Null)` shared by the container `ensure_*` methods -/
def Tracer.is_unknown_or_null : Tracer → Bool
  | .unknown _ _ _ => true
  | .primitive _ _ _ .null _ => true
  | _ => false

/-! ### list helpers -/

def Tracers.toList : Tracers → List Tracer
  | .nil => []
  | .cons t r => t :: r.toList

def Tracers.ofList : List Tracer → Tracers
  | [] => .nil
  | t :: r => .cons t (Tracers.ofList r)

def Tracers.length : Tracers → Nat
  | .nil => 0
  | .cons _ r => r.length + 1

def Tracers.get? : Tracers → Nat → Option Tracer
  | .nil, _ => none
  | .cons t _, 0 => some t
  | .cons _ r, i + 1 => r.get? i

def Tracers.set : Tracers → Nat → Tracer → Tracers
  | .nil, _, _ => .nil
  | .cons _ r, 0, x => .cons x r
  | .cons t r, i + 1, x => .cons t (r.set i x)

def Tracers.push : Tracers → Tracer → Tracers
  | .nil, x => .cons x .nil
  | .cons t r, x => .cons t (r.push x)

def TFields.toList : TFields → List (String × Nat × Tracer)
  | .nil => []
  | .cons n l t r => (n, l, t) :: r.toList

def TFields.length : TFields → Nat
  | .nil => 0
  | .cons _ _ _ r => r.length + 1

/-- `index.get(key)`: position of the field called `key` -/
def TFields.indexOf : TFields → String → Option Nat
  | .nil, _ => none
  | .cons n _ _ r, key => if n = key then some 0 else (r.indexOf key).map (· + 1)

def TFields.get? : TFields → Nat → Option Tracer
  | .nil, _ => none
  | .cons _ _ t _, 0 => some t
  | .cons _ _ _ r, i + 1 => r.get? i

def TFields.set : TFields → Nat → Tracer → TFields
  | .nil, _, _ => .nil
  | .cons n l _ r, 0, x => .cons n l x r
  | .cons n l t r, i + 1, x => .cons n l t (r.set i x)

def TFields.setLastSeen : TFields → Nat → Nat → TFields
  | .nil, _, _ => .nil
  | .cons n _ t r, 0, s => .cons n s t r
  | .cons n l t r, i + 1, s => .cons n l t (r.setLastSeen i s)

def TFields.push : TFields → String → Nat → Tracer → TFields
  | .nil, n, l, t => .cons n l t .nil
  | .cons n' l' t' r, n, l, t => .cons n' l' t' (r.push n l t)

def Variants.length : Variants → Nat
  | .nil => 0
  | .absent r => r.length + 1
  | .present _ _ r => r.length + 1

/-- `variants[idx]`: `none` out of range, `some none` an unseen slot -/
def Variants.get? : Variants → Nat → Option (Option (String × Tracer))
  | .nil, _ => none
  | .absent _, 0 => some none
  | .present n t _, 0 => some (some (n, t))
  | .absent r, i + 1 => r.get? i
  | .present _ _ r, i + 1 => r.get? i

def Variants.set : Variants → Nat → String → Tracer → Variants
  | .nil, _, _, _ => .nil
  | .absent r, 0, n, t => .present n t r
  | .present _ _ r, 0, n, t => .present n t r
  | .absent r, i + 1, n, t => .absent (r.set i n t)
  | .present n' t' r, i + 1, n, t => .present n' t' (r.set i n t)

/-- `while self.variants.len() <= idx { self.variants.push(None) }`, `k` = number of slots to add -/
def Variants.nones : Nat → Variants
  | 0 => .nil
  | k + 1 => .absent (Variants.nones k)

def Variants.padNone : Variants → Nat → Variants
  | .nil, k => Variants.nones k
  | .absent r, k => .absent (r.padNone k)
  | .present n t r, k => .present n t (r.padNone k)

/-! ### `ensure_*` -/

/-- fields of a fresh `StructTracer` created by `ensure_struct(fields, mode)` -/
def mkStructFields (path : String) : List String → TFields
  | [] => .nil
  | f :: r => .cons f 0 (Tracer.new f (path ++ "." ++ f)) (mkStructFields path r)

/-- `Tracer::ensure_struct` -/
def Tracer.ensure_struct (c : Code) (t : Tracer) (fields : List String) (mode : StructMode) : R Tracer := do
  t.enforce_depth_limit
  if t.is_unknown_or_null then
    .ok (.struct t.name t.path t.nullable (mkStructFields t.path fields) mode 0)
  else match t with
    | .struct n p nl fs m s =>
      -- pinned: `Self::Struct(_tracer) => {}` keeps the mode of the first sample (finding #26)
      if c.struct_mode_join && mode == .map then .ok (.struct n p nl fs .map s) else .ok t
    | _ => fail "Mismatched types: current struct"

def mkTupleFields (path : String) (n : Nat) : Nat → Tracers
  | 0 => .nil
  | k + 1 => .cons (Tracer.new (toString (n - (k + 1))) (path ++ "." ++ toString (n - (k + 1)))) (mkTupleFields path n k)

/-- `field.mark_nullable()` for every field from position `k` on -/
def Tracers.markFrom : Tracers → Nat → Tracers
  | .nil, _ => .nil
  | .cons t r, 0 => .cons t.mark_nullable (r.markFrom 0)
  | .cons t r, k + 1 => .cons t (r.markFrom k)

/-- `while field_tracers.len() < num_fields { push(nullable Tracer::new(len)) }` -/
def tupleGrowNullable (path : String) (num_fields : Nat) (ts : Tracers) : Tracers :=
  (List.range (num_fields - ts.length)).foldl
    (fun acc _ => acc.push (Tracer.new (toString acc.length) (path ++ "." ++ toString acc.length)).mark_nullable) ts

/-- `Tracer::ensure_tuple` -/
def Tracer.ensure_tuple (c : Code) (t : Tracer) (num_fields : Nat) : R Tracer := do
  t.enforce_depth_limit
  if t.is_unknown_or_null then
    .ok (.tuple t.name t.path t.nullable (mkTupleFields t.path num_fields num_fields))
  else match t with
    | .tuple n p nl ts =>
      -- pinned: `Self::Tuple(_tracer) => {}` (finding #25)
      if c.tuple_arity_nullable then .ok (.tuple n p nl (tupleGrowNullable p num_fields (ts.markFrom num_fields)))
      else .ok t
    | _ => fail "Mismatched types: current tuple"

def mkVariants (path : String) : List String → Variants
  | [] => .nil
  | v :: r => .present v (Tracer.new v (path ++ "." ++ v)) (mkVariants path r)

/-- `Tracer::ensure_union` -/
def Tracer.ensure_union (t : Tracer) (variants : List String) : R Tracer := do
  t.enforce_depth_limit
  if t.is_unknown_or_null then
    .ok (.union t.name t.path t.nullable (mkVariants t.path variants))
  else match t with
    | .union _ _ _ _ => .ok t
    | _ => fail "Mismatched types: current union"

/-- `Tracer::ensure_list` -/
def Tracer.ensure_list (t : Tracer) : R Tracer := do
  t.enforce_depth_limit
  if t.is_unknown_or_null then
    .ok (.list t.name t.path t.nullable (Tracer.new "element" (t.path ++ ".element")))
  else match t with
    | .list _ _ _ _ => .ok t
    | _ => fail "Mismatched types: current list"

/-- `Tracer::ensure_map` -/
def Tracer.ensure_map (t : Tracer) : R Tracer := do
  t.enforce_depth_limit
  if t.is_unknown_or_null then
    .ok (.map t.name t.path t.nullable (Tracer.new "key" (t.path ++ ".key")) (Tracer.new "value" (t.path ++ ".value")))
  else match t with
    | .map _ _ _ _ _ => .ok t
    | _ => fail "Mismatched types: current map"

/-! ### `coerce_primitive_type` -/

/-! `deriving BEq` on the mutual `DataType` does not reduce in the kernel: the model compares data types with
these pattern-matching predicates (or `DecidableEq`) so that the finite tables are `decide`-able. -/
def isNull : DataType → Bool
  | .null => true
  | _ => false

def isBoolean : DataType → Bool
  | .boolean => true
  | _ => false

def isLargeUtf8 : DataType → Bool
  | .largeUtf8 => true
  | _ => false

def isUtf8 : DataType → Bool
  | .utf8 => true
  | _ => false

def isUnsigned : DataType → Bool
  | .uint8 | .uint16 | .uint32 | .uint64 => true
  | _ => false

def isSigned : DataType → Bool
  | .int8 | .int16 | .int32 | .int64 => true
  | _ => false

def isFloat3264 : DataType → Bool
  | .float32 | .float64 => true
  | _ => false

def isInt (d : DataType) : Bool := isSigned d || isUnsigned d

/-- the pattern `Boolean | Int8 … UInt64 | Float32 | Float64` of the `allow_to_string` arms -/
def isToStringSource (d : DataType) : Bool := isBoolean d || isInt d || isFloat3264 d

def isTimestamp : DataType → Bool
  | .timestamp _ _ => true
  | _ => false

def tzOf : DataType → Option String
  | .timestamp _ tz => tz
  | _ => none

/-- `coerce_primitive_type(prev, curr, options)`, arm for arm in source order -/
def coerce_primitive_type (o : Options) (prev_ty : DataType) (nullable : Bool) (prev_st : Option Strategy)
    (curr_ty : DataType) (curr_st : Option Strategy) : R (DataType × Bool × Option Strategy) :=
  if prev_ty = curr_ty ∧ prev_st = curr_st then .ok (curr_ty, nullable, curr_st)
  else if prev_ty = .null then .ok (curr_ty, true, curr_st)
  else if curr_ty = .null then .ok (prev_ty, true, prev_st)
  -- unsigned x unsigned -> u64
  else if isUnsigned prev_ty && isUnsigned curr_ty && o.coerce_numbers then .ok (.uint64, nullable, none)
  -- signed x signed -> i64
  else if isSigned prev_ty && isSigned curr_ty && o.coerce_numbers then .ok (.int64, nullable, none)
  -- signed x unsigned -> i64
  else if isSigned prev_ty && isUnsigned curr_ty && o.coerce_numbers then .ok (.int64, nullable, none)
  -- unsigned x signed -> i64
  else if isUnsigned prev_ty && isSigned curr_ty && o.coerce_numbers then .ok (.int64, nullable, none)
  -- float x float -> f64
  else if isFloat3264 prev_ty && isFloat3264 curr_ty && o.coerce_numbers then .ok (.float64, nullable, none)
  -- int x float -> f64
  else if isInt prev_ty && isFloat3264 curr_ty && o.coerce_numbers then .ok (.float64, nullable, none)
  -- float x int -> f64
  else if isFloat3264 prev_ty && isInt curr_ty && o.coerce_numbers then .ok (.float64, nullable, none)
  else if isLargeUtf8 prev_ty && isToStringSource curr_ty && o.allow_to_string then .ok (.largeUtf8, nullable, none)
  else if isToStringSource prev_ty && isLargeUtf8 curr_ty && o.allow_to_string then .ok (.largeUtf8, nullable, none)
  else if isUtf8 prev_ty && isToStringSource curr_ty && o.allow_to_string then .ok (.utf8, nullable, none)
  else if isToStringSource prev_ty && isUtf8 curr_ty && o.allow_to_string then .ok (.utf8, nullable, none)
  -- incompatible formats, coerce to string
  else if isTimestamp prev_ty && isLargeUtf8 curr_ty then .ok (.largeUtf8, nullable, none)
  else if isLargeUtf8 prev_ty && isTimestamp curr_ty then .ok (.largeUtf8, nullable, none)
  else if isTimestamp prev_ty && isUtf8 curr_ty then .ok (.utf8, nullable, none)
  else if isUtf8 prev_ty && isTimestamp curr_ty then .ok (.utf8, nullable, none)
  else if isTimestamp prev_ty && isTimestamp curr_ty && tzOf prev_ty != tzOf curr_ty then
    .ok (o.string_type, nullable, none)
  else fail "Cannot accept type for tracer of primitive type"

/-- `Tracer::ensure_primitive_with_strategy` -/
def Tracer.ensure_primitive_with_strategy (o : Options) (t : Tracer) (item_type : DataType)
    (strategy : Option Strategy) : R Tracer :=
  match t with
  | .unknown n p nl => .ok (.primitive n p (nl || isNull item_type) item_type strategy)
  | .primitive n p nl ty st => do
    let (ty', nl', st') ← coerce_primitive_type o ty nl st item_type strategy
    .ok (.primitive n p nl' ty' st')
  | t => if isNull item_type then .ok (t.set_nullable true) else fail "Cannot merge container with primitive"

/-- `Tracer::ensure_primitive` / `ensure_number` -/
def Tracer.ensure_primitive (o : Options) (t : Tracer) (item_type : DataType) : R Tracer :=
  t.ensure_primitive_with_strategy o item_type none

def Tracer.ensure_number := @Tracer.ensure_primitive

/-- `Tracer::ensure_utf8` -/
def Tracer.ensure_utf8 (o : Options) (t : Tracer) (item_type : DataType) (strategy : Option Strategy) : R Tracer :=
  t.ensure_primitive_with_strategy o item_type strategy

/-! ### `StructTracer` / `TupleTracer` / `UnionTracer` methods -/

/-- `StructTracer::ensure_field(key)` on the parts of the struct node it touches -/
def ensure_field (path : String) (seen_samples : Nat) (fs : TFields) (key : String) : Nat × TFields :=
  match fs.indexOf key with
  | some idx => (idx, fs.setLastSeen idx seen_samples)
  | none =>
    let tracer := Tracer.new key (path ++ "." ++ key)
    -- field was missing in previous samples
    let tracer := if seen_samples != 0 then tracer.mark_nullable else tracer
    (fs.length, fs.push key seen_samples tracer)

/-- the loop of `StructTracer::end` -/
def TFields.end_ (seen_samples : Nat) : TFields → TFields
  | .nil => .nil
  | .cons n l t r =>
    .cons n l (if l != seen_samples then t.mark_nullable else t) (TFields.end_ seen_samples r)

/-- `TupleTracer::field_tracer(idx)`: grows the vector up to `idx` (every new slot is named after `idx`) -/
def field_tracer_grow (path : String) (idx : Nat) (ts : Tracers) : Tracers :=
  (List.range (idx + 1 - ts.length)).foldl
    (fun acc _ => acc.push (Tracer.new (toString idx) (path ++ "." ++ toString idx))) ts

def VARIANT_ALLOC_LIMIT : Nat := 1048576

/-- `UnionTracer::ensure_variant(variant, idx)` -/
def ensure_variant (path : String) (vs : Variants) (variant : String) (idx : Nat) : R Variants :=
  if idx ≥ VARIANT_ALLOC_LIMIT then panic "alloc: variants resized to the variant index" else
  let vs := vs.padNone (idx + 1 - vs.length)
  match vs.get? idx with
  | some (some (prev, _)) => if prev != variant then fail "Incompatible names for variant" else .ok vs
  | some none => .ok (vs.set idx variant (Tracer.new variant (path ++ "." ++ variant)))
  | none => panic "unreachable: variants[idx]"

/-! ### `is_complete`, `collect_paths`, `check` -/

mutual
/-- `Tracer::is_complete` -/
def Tracer.is_complete : Tracer → Bool
  | .unknown _ _ _ => false
  | .primitive _ _ _ _ _ => true
  | .list _ _ _ i => i.is_complete
  | .map _ _ _ k v => k.is_complete && v.is_complete
  | .struct _ _ _ fs _ _ => fs.all_complete
  | .tuple _ _ _ ts => ts.all_complete
  | .union _ _ _ vs => vs.all_complete
def Tracers.all_complete : Tracers → Bool
  | .nil => true
  | .cons t r => t.is_complete && r.all_complete
def TFields.all_complete : TFields → Bool
  | .nil => true
  | .cons _ _ t r => t.is_complete && r.all_complete
def Variants.all_complete : Variants → Bool
  | .nil => true
  | .absent r => r.all_complete
  | .present _ t r => t.is_complete && r.all_complete
end

mutual
/-- `Tracer::collect_paths` -/
def Tracer.collect_paths : Tracer → List String
  | .unknown _ p _ => [p]
  | .primitive _ p _ _ _ => [p]
  | .list _ p _ i => p :: i.collect_paths
  | .map _ p _ k v => p :: (k.collect_paths ++ v.collect_paths)
  | .struct _ p _ fs _ _ => p :: fs.collect_paths
  | .tuple _ p _ ts => p :: ts.collect_paths
  | .union _ p _ vs => p :: vs.collect_paths
def Tracers.collect_paths : Tracers → List String
  | .nil => []
  | .cons t r => t.collect_paths ++ r.collect_paths
def TFields.collect_paths : TFields → List String
  | .nil => []
  | .cons _ _ t r => t.collect_paths ++ r.collect_paths
def Variants.collect_paths : Variants → List String
  | .nil => []
  | .absent r => r.collect_paths
  | .present _ t r => t.collect_paths ++ r.collect_paths
end

/-- `Tracer::check_overwrites` -/
def Tracer.check_overwrites (o : Options) (t : Tracer) : R Unit :=
  let paths := t.collect_paths
  if o.overwrites.all (fun kv => paths.contains kv.1) then .ok ()
  else fail "Overwritten fields could not be found"

/-- `Tracer::check` -/
def Tracer.check (o : Options) (t : Tracer) : R Unit :=
  if t.name != "$" then fail "Check must be called on the root tracer" else t.check_overwrites o

/-- `Tracer::finish`: walks the tree, every node returns `Ok(())` -/
def Tracer.finish (t : Tracer) : R Tracer := .ok t

/-! ### `to_field` -/

def strategyMeta (s : Strategy) : Metadata := [(STRATEGY_KEY, s.toString)]

/-- `default_dictionary_field` -/
def default_dictionary_field (name : String) (nullable : Bool) (string_type : DataType) : Field :=
  .mk name (.dictionary .uint32 string_type) nullable []

/-- `unknown_variant_field` -/
def unknown_variant_field : Field := .mk "" .null true (strategyMeta .unknownVariant)

/-- stable insertion (after equal names), as `sort_by(|a, b| a.name.cmp(&b.name))` -/
def insertByName (f : Field) : List Field → List Field
  | [] => [f]
  | g :: r => if f.name < g.name then f :: g :: r else g :: insertByName f r

def sortByName (fs : List Field) : List Field := fs.foldl (fun acc f => insertByName f acc) []

/-- `UnionVariant::is_null_variant` -/
def is_null_variant (t : Tracer) : Bool := t.is_unknown_or_null

/-- `UnionTracer::is_without_data` -/
def Variants.is_without_data : Variants → Bool
  | .nil => true
  | .absent _ => false
  | .present _ t r => is_null_variant t && r.is_without_data

/-- the overwrite lookup at the head of `Tracer::to_field` -/
def withOverwrite (o : Options) (name path : String) (k : Unit → R Field) : R Field :=
  match o.get_overwrite path with
  | some ov => if ov.name != name then fail "Invalid name for overwritten field" else .ok ov
  | none => k ()

mutual
/-- `Tracer::to_field` (overwrite lookup, then the node's own `to_field`) -/
def Tracer.to_field (o : Options) : Tracer → R Field
  | .unknown n p nl => withOverwrite o n p fun _ =>
    if !o.allow_null_fields then fail "Encountered null only field" else .ok (.mk n .null true [])
  | .primitive n p nl ty st => withOverwrite o n p fun _ =>
    if !o.allow_null_fields && isNull ty then fail "Encountered null only field"
    else if isNull ty then .ok (.mk n .null true [])
    else if isLargeUtf8 ty || isUtf8 ty then
      if !o.string_dictionary_encoding then .ok (.mk n ty nl [])
      else .ok (default_dictionary_field n nl o.string_type)
    else .ok (.mk n ty nl (match st with | some s => strategyMeta s | none => []))
  | .list n p nl i => withOverwrite o n p fun _ => do
    let item ← i.to_field o
    .ok (.mk n (if o.sequence_as_large_list then .largeList item else .list item) nl [])
  | .map n p nl k v => withOverwrite o n p fun _ => do
    let kf ← k.to_field o
    let vf ← v.to_field o
    let entry := Field.mk "entries" (.struct (Fields.ofList [kf, vf])) false []
    .ok (.mk n (.map entry false) nl [])
  | .struct n p nl fs mode _ => withOverwrite o n p fun _ => do
    let fields ← fs.to_fields o
    match mode with
    | .map => .ok (.mk n (.struct (Fields.ofList (sortByName fields))) nl (strategyMeta .mapAsStruct))
    | .struct => .ok (.mk n (.struct (Fields.ofList fields)) nl [])
  | .tuple n p nl ts => withOverwrite o n p fun _ => do
    let fields ← ts.to_fields o
    .ok (.mk n (.struct (Fields.ofList fields)) nl (strategyMeta .tupleAsStruct))
  | .union n p nl vs => withOverwrite o n p fun _ =>
    if vs.is_without_data && o.enums_without_data_as_strings then
      .ok (default_dictionary_field n nl o.string_type)
    else if vs.is_without_data && !o.allow_null_fields then fail "Encountered enums without data"
    else do
      let fields ← vs.to_fields o 0
      .ok (.mk n (.union (UFields.ofList fields) .dense) nl [])
def Tracers.to_fields (o : Options) : Tracers → R (List Field)
  | .nil => .ok []
  | .cons t r => do
    let f ← t.to_field o
    let fs ← r.to_fields o
    .ok (f :: fs)
def TFields.to_fields (o : Options) : TFields → R (List Field)
  | .nil => .ok []
  | .cons _ _ t r => do
    let f ← t.to_field o
    let fs ← r.to_fields o
    .ok (f :: fs)
/-- the variant loop of `UnionTracer::to_field`; `i8::try_from(idx)?` fails from 128 on -/
def Variants.to_fields (o : Options) : Variants → Nat → R (List (Int × Field))
  | .nil, _ => .ok []
  | .absent r, idx => do
    if idx > 127 then fail "out of range integral type conversion attempted"
    let fs ← r.to_fields o (idx + 1)
    .ok ((Int.ofNat idx, unknown_variant_field) :: fs)
  | .present _ t r, idx => do
    if idx > 127 then fail "out of range integral type conversion attempted"
    let f ← t.to_field o
    let fs ← r.to_fields o (idx + 1)
    .ok ((Int.ofNat idx, f) :: fs)
end

/-- `Tracer::to_schema` -/
def Tracer.to_schema (o : Options) (t : Tracer) : R (List Field) := do
  let root ← t.to_field o
  if root.nullable then fail "The root type cannot be nullable"
  else match root.dataType with
    | .struct children => .ok children.toList
    | .null => fail "No records found to determine schema"
    | _ => fail "Schema tracing is not directly supported for the root data type"

end SaModel.Trace
