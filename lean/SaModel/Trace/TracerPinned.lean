import SaModel.Trace.FromSamples
/-
The PINNED variant of `Tracer::to_field` (before repo fix 5168cf7, known finding C09-traced-unseen-null): identical to
`Tracer.to_field` (Trace/Tracer.lean) except for ONE arm — `UnknownTracer::to_field` wrote `nullable: self.nullable`, the
flag of a position no sample reached, instead of `nullable: true`.  Kept beside the model of the repaired code for the
witness `Props.C09.C09_unseen_position_outside_pinned`; nothing else refers to it.
-/
namespace SaModel.Trace
open SaModel

mutual
/-- `Tracer::to_field` before 5168cf7 -/
def Tracer.to_fieldPinned (o : Options) : Tracer → R Field
  | .unknown n p nl => withOverwrite o n p fun _ =>
    -- pinned: `nullable: self.nullable` — the flag of a position no sample reached is unset
    if !o.allow_null_fields then fail "Encountered null only field" else .ok (.mk n .null nl [])
  | .primitive n p nl ty st => withOverwrite o n p fun _ =>
    if !o.allow_null_fields && isNull ty then fail "Encountered null only field"
    else if isNull ty then .ok (.mk n .null true [])
    else if isLargeUtf8 ty || isUtf8 ty then
      if !o.string_dictionary_encoding then .ok (.mk n ty nl [])
      else .ok (default_dictionary_field n nl o.string_type)
    else .ok (.mk n ty nl (match st with | some s => strategyMeta s | none => []))
  | .list n p nl i => withOverwrite o n p fun _ => do
    let item ← i.to_fieldPinned o
    .ok (.mk n (if o.sequence_as_large_list then .largeList item else .list item) nl [])
  | .map n p nl k v => withOverwrite o n p fun _ => do
    let kf ← k.to_fieldPinned o
    let vf ← v.to_fieldPinned o
    let entry := Field.mk "entries" (.struct (Fields.ofList [kf, vf])) false []
    .ok (.mk n (.map entry false) nl [])
  | .struct n p nl fs mode _ => withOverwrite o n p fun _ => do
    let fields ← fs.to_fieldsPinned o
    match mode with
    | .map => .ok (.mk n (.struct (Fields.ofList (sortByName fields))) nl (strategyMeta .mapAsStruct))
    | .struct => .ok (.mk n (.struct (Fields.ofList fields)) nl [])
  | .tuple n p nl ts => withOverwrite o n p fun _ => do
    let fields ← ts.to_fieldsPinned o
    .ok (.mk n (.struct (Fields.ofList fields)) nl (strategyMeta .tupleAsStruct))
  | .union n p nl vs => withOverwrite o n p fun _ =>
    if vs.is_without_data && o.enums_without_data_as_strings then
      .ok (default_dictionary_field n nl o.string_type)
    else if vs.is_without_data && !o.allow_null_fields then fail "Encountered enums without data"
    else do
      let fields ← vs.to_fieldsPinned o 0
      .ok (.mk n (.union (UFields.ofList fields) .dense) nl [])
def Tracers.to_fieldsPinned (o : Options) : Tracers → R (List Field)
  | .nil => .ok []
  | .cons t r => do
    let f ← t.to_fieldPinned o
    let fs ← r.to_fieldsPinned o
    .ok (f :: fs)
def TFields.to_fieldsPinned (o : Options) : TFields → R (List Field)
  | .nil => .ok []
  | .cons _ _ t r => do
    let f ← t.to_fieldPinned o
    let fs ← r.to_fieldsPinned o
    .ok (f :: fs)
def Variants.to_fieldsPinned (o : Options) : Variants → Nat → R (List (Int × Field))
  | .nil, _ => .ok []
  | .absent r, idx => do
    if idx > 127 then fail "out of range integral type conversion attempted"
    let fs ← r.to_fieldsPinned o (idx + 1)
    .ok ((Int.ofNat idx, unknown_variant_field) :: fs)
  | .present _ t r, idx => do
    if idx > 127 then fail "out of range integral type conversion attempted"
    let f ← t.to_fieldPinned o
    let fs ← r.to_fieldsPinned o (idx + 1)
    .ok ((Int.ofNat idx, f) :: fs)
end

/-- `Tracer::to_schema` over the pinned `to_field` -/
def Tracer.to_schemaPinned (o : Options) (t : Tracer) : R (List Field) := do
  let root ← t.to_fieldPinned o
  if root.nullable then fail "The root type cannot be nullable"
  else match root.dataType with
    | .struct children => .ok children.toList
    | .null => fail "No records found to determine schema"
    | _ => fail "Schema tracing is not directly supported for the root data type"

/-- `SerdeArrowSchema::from_samples(xs, o)` before 5168cf7 (the tracing itself is unchanged) -/
def fromSamplesUnseenPinned (o : Options) (xs : List SVal) : R (List Field) := do
  let t ← fromSamplesTracer .fixed o xs
  t.to_schemaPinned o

end SaModel.Trace
