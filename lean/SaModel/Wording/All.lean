import SaModel.Props.ConstGen
import SaModel.Wording.Build
import SaModel.Wording.Temporal
import SaModel.Wording.Trace
import SaModel.Wording.Schema
import SaModel.Wording.Decimal
import SaModel.Wording.Ext
/-
WORDING — not an obligation of any property.  The message literals of the model compared with the message texts the translator
reads out of the sources NOW (`Generated/Constants*.lean`).  No property of serde_arrow constrains the English wording of an
error and the correspondence suites never compare message text, so a reworded message must not raise an alarm: no check
builds this module as an obligation (false-alarm probes g09 / g18: DESIGN.md section 11.1, correction dated in section 7.2).  `./check --wording` builds
`SaModel.Wording.All` and reports a failure as a NOTE.
-/
namespace SaModel.Props.ConstGen
open SaModel SaModel.Generated

/-- the message texts of the reader models (`SaModel/Read/*.lean`, `Spec/Decode.lean`) that are the source's texts verbatim -/
def readerVerbatim : List String :=
  ["Cannot deserialize from arrays with different lengths", "Exhausted deserializer",
   "Unsupported: cannot deserialize enums with data from strings", "Invalid access in bitset",
   "Required value was not defined", "Access beyond array length", "Out of bounds access",
   "invalid state in bytes deserialization", "Null for non-nullable type: dictionaries do not support nullable values",
   "Unsupported dictionary array type", "Only dense unions are supported", "Offsets and type ids must have the same length",
   "Only unions with consecutive type ids are currently supported", "Access beyond bounds"]

theorem gen_reader_messages :
    readerVerbatim.all (fun m => ConstantsMessages.readerTexts.any (fun t => decide (t = m))) = true := by decide +kernel

/-- the area tables of messages are selections by file of the global table (checked for two small areas) -/
theorem area_messages_listed :
    (ConstantsDecimal.messages ++ ConstantsExt.messages).all
      (fun m => ConstantsMessages.messages.any (fun e => decide (e.2 = m))) = true := by decide +kernel

end SaModel.Props.ConstGen
