import SaModel.Props.ConstGenBuild
/-
WORDING — not an obligation of any property.  The message literals of the model compared with the message texts the translator
reads out of the sources NOW (`Generated/Constants*.lean`).  No property of serde_arrow constrains the English wording of an
error and the correspondence suites never compare message text, so a reworded message must not raise an alarm: no check
builds this module as an obligation (false-alarm probes g09 / g18: DESIGN.md section 11.1, correction dated in section 7.2).  `./check --wording` builds
`SaModel.Wording.All` and reports a failure as a NOTE.
-/
namespace SaModel.Props.ConstGenBuild
open SaModel SaModel.Generated

/-- the message texts of the model's builders that are the source's texts verbatim -/
def verbatim : List String :=
  ["Cannot push null for non-nullable array", "Invalid offset array: expected at least a single element",
   "Time32 only supports second or millisecond resolutions", "Time64 only supports nanosecond or microsecond resolutions",
   "Missing keys field for map", "Missing values field for map", "Union with non consecutive type ids are not supported",
   "Unknown variant does not support serialize_default", "Unknown variant does not support serialize_none",
   "serialize_unit/serialize_none is not supported", "Timezone {tz} is not supported",
   "Unknown variant does not support serialize_struct_start", "Unknown variant does not support serialize_unit",
   "Unknown variant does not support serialize_map_start", "Cannot serialize enum with data as string",
   "Unknown variant does not support serialize_newtype_variant", "Unknown variant does not support serialize_tuple_variant_start",
   "Unknown variant does not support serialize_struct_variant_start", "Unknown variant does not support serialize_unit_struct",
   "Invalid map: the last key has no value", "Invalid map: a key was serialized before the value of the previous key",
   "Invalid map: a value was serialized without a key", "Decimal128 only supports precisions between 1 and 38"]

theorem gen_messages : verbatim.all (fun m => ConstantsBuild.messages.any (fun t => decide (t = m))) = true := by decide +kernel

/-- model texts the source continues with a placeholder: (model text, continuation in the source) -/
def prefixes : List (String × String) :=
  [("Duplicate field", " {key}"), ("Duplicate field", " {name}"),
   ("BytesView overflow: the length {len} or the buffer offset {offset} exceeds i32::MAX", ""),
   ("BytesView overflow: the element length {len} exceeds i32::MAX", ""),
   ("BytesView overflow: the buffer offset {start} exceeds i32::MAX", "")]

theorem gen_message_prefixes :
    prefixes.all (fun e => ConstantsBuild.messages.any (fun t => decide (t = e.1 ++ e.2))) = true := by decide +kernel

end SaModel.Props.ConstGenBuild
