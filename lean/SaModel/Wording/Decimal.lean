import SaModel.Props.ConstGenDecimal
/-
WORDING — not an obligation of any property.  The message literals of the model compared with the message texts the translator
reads out of the sources NOW (`Generated/Constants*.lean`).  No property of serde_arrow constrains the English wording of an
error and the correspondence suites never compare message text, so a reworded message must not raise an alarm: no check
builds this module as an obligation (false-alarm probes g09 / g18: DESIGN.md section 11.1, correction dated in section 7.2).  `./check --wording` builds
`SaModel.Wording.All` and reports a failure as a NOTE.
-/
namespace SaModel.Props.ConstGenDecimal
open SaModel SaModel.Generated

/-- the message texts of the model that are the source's texts verbatim -/
def verbatim : List String :=
  ["Invalid decimal: not enough precision", "Invalid decimal: not enough scale, the given number would be truncated",
   "Invalid decimal: only ascii digits are supported", "Invalid decimal: no digits found",
   "Invalid decimal: cannot convert non-finite float"]

theorem gen_messages :
    verbatim.all (fun m => ConstantsDecimal.messages.any (fun t => decide (t = m))) = true ∧
    ConstantsDecimal.precisionMessage = "Decimal128 only supports precisions between 1 and 38" := by decide +kernel

end SaModel.Props.ConstGenDecimal
