import SaModel.Props.ConstGenExt
/-
WORDING — not an obligation of any property.  The message literals of the model compared with the message texts the translator
reads out of the sources NOW (`Generated/Constants*.lean`).  No property of serde_arrow constrains the English wording of an
error and the correspondence suites never compare message text, so a reworded message must not raise an alarm: no check
builds this module as an obligation (false-alarm probes g09 / g18: DESIGN.md section 11.1, correction dated in section 7.2).  `./check --wording` builds
`SaModel.Wording.All` and reports a failure as a NOTE.
-/
namespace SaModel.Props.ConstGenExt
open SaModel SaModel.Generated

/-- the message texts of the model that are the source's texts verbatim -/
def verbatim : List String :=
  ["The element field of FixedShapeTensorField must be named \"element\"",
   "The number of elements of FixedShapeTensorField does not fit into i32", "Invalid uniform_shape value",
   "Number of dim names must be equal to the number of dimensions",
   "Number of permutation entries must be equal to the number of dimensions"]

theorem gen_messages : verbatim.all (fun m => ConstantsExt.messages.any (fun t => decide (t = m))) = true := by decide +kernel

/-- model texts the source fills with placeholders: the model says `a ++ c`, the source `a ++ b ++ c ++ d` -/
def withPlaceholder : List (String × String × String × String) :=
  [("Invalid permutation: index", " {i}", " is not in range", " 0..{len}"),
   ("Invalid permutation: index", " {i}", " found multiple times", ""),
   ("Invalid permutation: index", " {i}", " is not present", "")]

theorem gen_message_placeholders :
    withPlaceholder.all (fun e => ConstantsExt.messages.any (fun t => decide (t = e.1 ++ e.2.1 ++ e.2.2.1 ++ e.2.2.2))) = true := by
  decide +kernel

end SaModel.Props.ConstGenExt
