import SaModel.Props.ConstGenSchema
/-
WORDING — not an obligation of any property.  The message literals of the model compared with the message texts the translator
reads out of the sources NOW (`Generated/Constants*.lean`).  No property of serde_arrow constrains the English wording of an
error and the correspondence suites never compare message text, so a reworded message must not raise an alarm: no check
builds this module as an obligation (false-alarm probes g09 / g18: DESIGN.md section 11.1, correction dated in section 7.2).  `./check --wording` builds
`SaModel.Wording.All` and reports a failure as a NOTE.
-/
namespace SaModel.Props.ConstGenSchema
open SaModel SaModel.Generated

theorem gen_term_depth_message : ConstantsSchema.termDepthMessage = "Term is nested too deeply" := by decide +kernel

/-- the message texts of the model that are the source's texts verbatim (dsl.rs, schema/serde/deserialize.rs, schema/mod.rs,
utils/value.rs) -/
def verbatim : List String :=
  ["Invalid unicode escape in quoted string", "Missing end quote", "Invalid escape sequence in quoted string",
   "No identifier found", "Missing ')'", "Term is nested too deeply", "Expected identifier, found quoted string",
   "Expected identifier, found call", "Expected string, found identifier", "Expected call, found quoted string",
   "Invalid children for List: expected one child", "Invalid children for LargeList: expected one child",
   "Invalid children for Dictionary: expected two children", "Invalid children for Map: expected one child",
   "Invalid FixedSizedBinary with negative number of elements", "Time32 field must have Second or Millisecond unit",
   "Time64 field must have Microsecond or Nanosecond unit", "Invalid child data type for map, expected struct with 2 fields",
   "Invalid FixedSizeList with negative number of elements", "Cannot extract string from non-string value",
   "missing field `fields`"]

theorem gen_messages : verbatim.all (fun m => ConstantsSchema.messages.any (fun t => decide (t = m))) = true := by decide +kernel

end SaModel.Props.ConstGenSchema
