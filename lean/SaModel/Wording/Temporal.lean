import SaModel.Props.ConstGenTemporal
/-
WORDING — not an obligation of any property.  The message literals of the model compared with the message texts the translator
reads out of the sources NOW (`Generated/Constants*.lean`).  No property of serde_arrow constrains the English wording of an
error and the correspondence suites never compare message text, so a reworded message must not raise an alarm: no check
builds this module as an obligation (false-alarm probes g09 / g18: DESIGN.md section 11.1, correction dated in section 7.2).  `./check --wording` builds
`SaModel.Wording.All` and reports a failure as a NOTE.
-/
namespace SaModel.Props.ConstGenTemporal
open SaModel SaModel.Generated

/-! ### message texts -/

def verbatim : List String := ["Cannot convert interval style spans to a duration"]

theorem gen_messages : verbatim.all (fun m => ConstantsTemporal.messages.any (fun t => decide (t = m))) = true := by decide +kernel

/-- model texts the source continues or fills with a placeholder: the source text is `model prefix ++ middle ++ model rest` -/
def withPlaceholder : List (String × String × String) :=
  [("Cannot represent the leap second", " {v}", " as a time since midnight"),
   ("Unsupported timestamp value", ": {ts}", ""),
   ("Unsupported date value", ": {ts} days since the epoch are out of range", ""),
   ("Timestamp", " '{date_time}'", " cannot be converted to nanoseconds"
      ++ ". The dates that can be represented as nanoseconds are between 1677-09-21T00:12:44.0 and 2262-04-11T23:47:16.854775804.")]

theorem gen_message_placeholders :
    withPlaceholder.all (fun e => ConstantsTemporal.messages.any (fun t => decide (t = e.1 ++ e.2.1 ++ e.2.2))) = true := by
  decide +kernel

end SaModel.Props.ConstGenTemporal
