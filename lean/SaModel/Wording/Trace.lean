import SaModel.Props.ConstGenTrace
/-
WORDING — not an obligation of any property.  The message literals of the model compared with the message texts the translator
reads out of the sources NOW (`Generated/Constants*.lean`).  No property of serde_arrow constrains the English wording of an
error and the correspondence suites never compare message text, so a reworded message must not raise an alarm: no check
builds this module as an obligation (false-alarm probes g09 / g18: DESIGN.md section 11.1, correction dated in section 7.2).  `./check --wording` builds
`SaModel.Wording.All` and reports a failure as a NOTE.
-/
namespace SaModel.Props.ConstGenTrace
open SaModel SaModel.Generated

theorem gen_depth_limit_message_ref : ConstantsTrace.depthLimitMessage = "{RECURSIVE_TYPE_WARNING}" := by decide +kernel

/-- the message of the model is the beginning of the text in the source -/
theorem gen_depth_limit_message :
    ConstantsTrace.RECURSIVE_TYPE_WARNING =
      "Too deeply nested type detected" ++ ": recursive types are not supported in schema tracing" := by decide +kernel

/-- the message texts of the model that are the source's texts verbatim -/
def verbatim : List String :=
  ["Check must be called on the root tracer", "The root type cannot be nullable", "No records found to determine schema",
   "Invalid variant index", "Invalid state", "Invalid argument: cannot interpret key as string"]

theorem gen_messages : verbatim.all (fun m => ConstantsTrace.messages.any (fun t => decide (t = m))) = true := by decide +kernel

/-- model texts that are the beginning of the source's text: (model text, how the source continues) -/
def prefixes : List (String × String) :=
  [("Could not determine schema from the type after {budget} iterations",
    ". Consider increasing the budget option or using `from_samples`."),
   ("Too deeply nested type detected", ": recursive types are not supported in schema tracing"),
   ("Invalid name for overwritten field", " {path:?}: found {overwrite_name:?}, expected {tracer_name:?}"),
   ("Overwritten fields could not be found", ": missing fields {missing:?}, known fields: {paths:?}")]

theorem gen_message_prefixes :
    prefixes.all (fun e => (ConstantsTrace.RECURSIVE_TYPE_WARNING :: ConstantsTrace.messages).any
      (fun t => decide (t = e.1 ++ e.2))) = true := by decide +kernel

end SaModel.Props.ConstGenTrace
