use marrow::datatypes::{DataType, Field};
use serde::Serialize;
use std::collections::HashMap;

#[derive(Serialize)]
struct Inner {
    a: i64,
    b: i64,
}

#[derive(Serialize)]
struct Row {
    s: Inner,
    c: i64,
}

fn f(name: &str, dt: DataType, nullable: bool) -> Field {
    Field { name: name.into(), data_type: dt, nullable, metadata: HashMap::new() }
}

fn main() {
    // s: Struct{a: Int64, b: Int8}, c: Int64 ; b overflows Int8 in the bad row
    let fields = vec![
        f("s", DataType::Struct(vec![f("a", DataType::Int64, false), f("b", DataType::Int8, false)]), false),
        f("c", DataType::Int64, false),
    ];
    let run = |which: &str| {
        let fields = fields.clone();
        let which = which.to_string(); let w2 = which.clone();
        let r = std::panic::catch_unwind(move || {
            let mut b = serde_arrow::ArrayBuilder::from_marrow(&fields).unwrap();
            println!("push ok row: {:?}", b.push(&Row { s: Inner { a: 1, b: 1 }, c: 1 }).is_ok());
            println!("push bad row: {:?}", b.push(&Row { s: Inner { a: 2, b: 1000 }, c: 2 }).map_err(|e| e.to_string()));
            println!("push ok row: {:?}", b.push(&Row { s: Inner { a: 3, b: 3 }, c: 3 }).map_err(|e| e.to_string()));
            match which.as_str() {
                "marrow" => println!("to_marrow: {:?}", b.to_marrow().map(|a| format!("{a:?}")).map_err(|e| e.to_string())),
                "arrow" => println!("to_arrow: {:?}", b.to_arrow().map(|a| a.iter().map(|x| x.len()).collect::<Vec<_>>()).map_err(|e| e.to_string())),
                "batch" => println!("to_record_batch: {:?}", b.to_record_batch().map(|a| a.num_rows()).map_err(|e| e.to_string())),
                _ => println!("to_arrow2: {:?}", b.to_arrow2().map(|a| a.iter().map(|x| x.len()).collect::<Vec<_>>()).map_err(|e| e.to_string())),
            }
        });
        println!("{w2}: unwound = {}", r.is_err());
    };
    for w in ["marrow", "arrow", "batch", "arrow2"] {
        run(w);
    }
}
