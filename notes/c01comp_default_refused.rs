// replay of the finding `default_refused` of the Lean completeness proof (C01): a None at a nullable struct whose
// child enum was traced with an unseen variant 0 (UnknownVariant placeholder) is refused.
use serde::{Deserialize, Serialize};
use serde_arrow::schema::{SchemaLike, SerdeArrowSchema, TracingOptions};
use serde_arrow::ArrayBuilder;

#[derive(Serialize, Deserialize)]
enum E {
    A,
    B,
}

#[derive(Serialize, Deserialize)]
struct S {
    e: E,
}

#[derive(Serialize, Deserialize)]
struct Row {
    s: Option<S>,
}

#[test]
fn none_at_nullable_struct_with_unknown_variant_child() {
    // only variant B (index 1) is seen: variant 0 becomes an UnknownVariant placeholder
    let samples = vec![Row { s: Some(S { e: E::B }) }, Row { s: None }];
    let schema = SerdeArrowSchema::from_samples(
        &samples,
        TracingOptions::default().allow_null_fields(true).enums_without_data_as_strings(false),
    )
    .unwrap();
    let mut builder = ArrayBuilder::new(schema).unwrap();
    let r1 = builder.push(&Row { s: Some(S { e: E::B }) });
    println!("push Some(B): {:?}", r1.as_ref().map_err(|e| e.to_string()));
    let r2 = builder.push(&Row { s: None });
    println!("push None: {:?}", r2.as_ref().map_err(|e| e.to_string()));
    assert!(r1.is_ok());
    assert!(r2.is_ok(), "None at the nullable struct is refused");
}
