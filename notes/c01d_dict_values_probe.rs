use serde::Serialize;
use serde_arrow::marrow::{array::Array, datatypes::{DataType, Field}};

#[derive(Serialize)]
struct R<T> { d: T }

fn field(v: DataType) -> Vec<Field> {
    vec![Field { name: "d".into(), data_type: DataType::Dictionary(Box::new(DataType::Int8), Box::new(v)), nullable: false, metadata: Default::default() }]
}

fn show(label: &str, r: serde_arrow::Result<Vec<Array>>) {
    match r {
        Ok(a) => println!("{label}: OK {:?}", a),
        Err(e) => println!("{label}: ERR {e}"),
    }
}

#[test]
fn probe() {
    show("date32 strs", serde_arrow::to_marrow(&field(DataType::Date32), &[R{d:"2020-01-01"}, R{d:"2020-01-02"}, R{d:"2020-01-01"}]));
    show("date32 bad str", serde_arrow::to_marrow(&field(DataType::Date32), &[R{d:"x"}]));
    show("date32 i32", serde_arrow::to_marrow(&field(DataType::Date32), &[R{d:5i32}]));
    show("decimal strs", serde_arrow::to_marrow(&field(DataType::Decimal128(5,2)), &[R{d:"1.0"}, R{d:"1.00"}, R{d:"1.0"}]));
    show("decimal i32", serde_arrow::to_marrow(&field(DataType::Decimal128(5,2)), &[R{d:5i32}]));
    show("int32 strs", serde_arrow::to_marrow(&field(DataType::Int32), &[R{d:"1"}]));
    show("int32 i32", serde_arrow::to_marrow(&field(DataType::Int32), &[R{d:1i32}]));
    show("bool true", serde_arrow::to_marrow(&field(DataType::Boolean), &[R{d:true}]));
    show("largeutf8 i32", serde_arrow::to_marrow(&field(DataType::LargeUtf8), &[R{d:7i32}, R{d:7i32}]));
    show("utf8view", serde_arrow::to_marrow(&field(DataType::Utf8View), &[R{d:"a"}, R{d:"b"}, R{d:"a"}]));
    show("f64 str", serde_arrow::to_marrow(&field(DataType::Float64), &[R{d:"1.5"}]));
    show("ts str", serde_arrow::to_marrow(&field(DataType::Timestamp(serde_arrow::marrow::datatypes::TimeUnit::Second, None)), &[R{d:"2020-01-01T00:00:00"}, R{d:"2020-01-01T00:00:00"}]));
}
