#!/usr/bin/env python3
"""tools/benignprompt.py <Cxx> <tag> <style>: the prompt for a sub-agent that writes a PROPERTY-PRESERVING change
(the false-alarm probe: every check must stay green on it).  The agent gets the property text and a scratch worktree only."""
import json, sys
pid, tag, style = sys.argv[1], sys.argv[2], sys.argv[3]
hint = sys.argv[4] if len(sys.argv) > 4 else ""
p = {json.loads(l)["id"]: json.loads(l) for l in open("/verif/properties.jsonl")}[pid]
styles = {
 "refactor": "a pure refactor of the code the property is anchored in: extract or inline a helper, replace an index loop by iterators (or the reverse), reorder independent statements or match arms, rename private items / locals, replace a chain of `if` by a `match`, move a private function to another module, change a private struct's field order or add a private cached field.  Observable behaviour of the public API must be IDENTICAL (same results, same errors incl. messages).",
 "perf": "a performance-motivated change in the code the property is anchored in: reserve capacity, avoid a clone / allocation, add a fast path that computes exactly the same result, cache something that is invalidated correctly, switch a private container type (Vec <-> SmallVec-like array, BTreeMap <-> HashMap where order is not observable).  Observable results of the public API must be IDENTICAL.",
 "wording": "a change of user-visible TEXT that the property does not constrain: reword two or three error messages raised in the anchored files (keep every structured part the property talks about, e.g. keep annotations / field paths / escaping exactly as they are; change only the fixed English wording), improve a doc comment, rename a private error-constructor helper.  Everything else identical.",
 "unconstrained": "a behaviour change in a corner the property does NOT constrain, which keeps the property true: e.g. accept a little more or refuse a little earlier in a place the property is silent about, change an internal capacity / growth policy, change the order in which two independent errors are detected when both are present in a way the property does not fix, normalise something internal.  State precisely in meta.json why the property (as worded) still holds for every input.",
}
print(f"""You are helping evaluate a verification tool for FALSE ALARMS: you write a realistic change to a Rust library that KEEPS a given property true; the tool must stay quiet on it.

Your working copy: a scratch git worktree of the Rust library chmp/serde_arrow at /tmp/mut/{tag} (work ONLY inside it and in the output directory /tmp/mut/{tag}.out; never read or touch /repo or /verif; never commit).  The sandbox has no network: always pass --offline to cargo.

The property (a guarantee users of the library rely on):

  id: {pid}
  title: {p['title']}
  statement: {p['statement']}
  quantifier: {p['quantifier']['text']}
  code it is anchored in: {', '.join(p['anchors']['files'])}

Task: make ONE realistic change of moderate size (20-120 changed lines) to the library source (under /tmp/mut/{tag}/serde_arrow/src), of this kind:
  {styles[style]}
{hint}
Requirements:
  (a) the crate still compiles (also with `--features arrow-55,arrow2-0-17`), without new warnings that are errors;
  (b) the existing test suite still passes unedited: `cd /tmp/mut/{tag} && cargo test --workspace --no-fail-fast --offline` (499 tests pass on the unchanged tree);
  (c) the property above — and, as far as you can tell, every other documented guarantee of the crate — STILL HOLDS for every input.  Be careful and honest here: if you are not sure the change is behaviour preserving in the sense described, choose a different change.  Do not introduce panics, do not change results.
  (d) it looks like something a maintainer would merge.

Deliverables, all in /tmp/mut/{tag}.out/ :
  patch.diff  — `git -C /tmp/mut/{tag} diff -- serde_arrow/src`
  meta.json   — {{"property": "{pid}", "style": "{style}", "summary": "<what was changed>", "why_preserving": "<argument that the property and observable behaviour are preserved; for styles wording/unconstrained: exactly WHAT observable thing changed>", "files_changed": [...]}}

NEVER use `git stash` (the stash is shared between all worktrees of this repository and other agents work in parallel); to test the unchanged tree save your diff to a file, `git checkout -- serde_arrow/src`, test, `git apply` the file.  Note: 2 integration tests (tests::tensors::*) need python's pyarrow and fail in this sandbox on the unchanged tree too; ignore them.

Leave the worktree with the patch applied.  When done, reply with a 4-line summary.  Be economical: read the anchored files, pick a site, make the change, run the suite.
""")
