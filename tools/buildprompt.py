#!/usr/bin/env python3
"""tools/buildprompt.py <name> <goal-file>: prompt for a builder sub-agent working in /tmp/wt/<name>/{verif,repo}"""
import sys
name, goal = sys.argv[1], open(sys.argv[2]).read()
print(f"""You are a Lean 4 proof engineer extending an existing verification framework for the Rust crate chmp/serde_arrow.

WORKSPACE (private to you; work ONLY here, never edit /verif or /repo directly):
  /tmp/wt/{name}/verif   git worktree of the verification framework (branch agent-{name})
  /tmp/wt/{name}/repo    git worktree of the crate (branch agent-{name}); the harness in your verif worktree links THIS copy (harness/sa_link)
Commit your work in /tmp/wt/{name}/verif frequently (small commits, clear messages; `git add -A && git commit`).  Whatever is committed on your branch is what gets merged.

READ FIRST (in your verif worktree): FRAMEWORK.md (the contract: where files go, rules, commands), the section of DESIGN.md about your property, notes/<Cxx>.md, the property's entry in properties.jsonl, props/<Cxx>.json, then the Lean files named in the goal.

ENVIRONMENT: Lean 4.33 (lean, lake on PATH), no network (cargo needs --offline).  `cd /tmp/wt/{name}/verif/lean && lake build SaModel.Props.Cxx` builds one module with its dependencies (the .lake cache was copied, so it is incremental).  Never run two lake builds at once in your tree.  `cd /tmp/wt/{name}/verif && ./check Cxx` runs the whole pipeline for one property against your repo worktree (first run builds the Rust harness, about 1 min).  Mathlib exists but model files and the driver must stay core-only; a proof file may import a SINGLE Mathlib module only if really needed.

RULES (the audit in ./check enforces them): no `sorry`, `admit`, `axiom`, `native_decide`, `bv_decide`, `implemented_by`, `unsafe`, `maxHeartbeats 0`.  `decide +kernel` only for genuinely finite tables.  Every file must build in < 60 s (split lemmas into several files under lean/SaModel/Lemmas/ if needed).  State theorems at full strength, quantified over unbounded inputs; a theorem that proves only part keeps the suffix `_partial` and a comment saying what is missing; when you complete one, drop the suffix and remove the superseded partial statement.  Put a non-vacuity `example` beside each new property theorem (a concrete non-trivial instance that meets its hypotheses).  Never weaken an existing property theorem to make something pass.  Model the code that EXISTS (read the Rust source in your repo worktree); if model and code disagree the default repair is to the model.  If you find that the real crate violates the property (you can show a failing input against the real code), tell me in your report (input, what happens) — do not 'fix' the check to hide it.
Do not modify definitions in shared model files (lean/SaModel/Data, Spec, Build, Read, Trace, Codec, Basic) unless the goal requires it; if you must, keep the change minimal, make sure `lake build SaModel sadrv` still succeeds in your tree, and list every such change in your final report.  New lemma files go under lean/SaModel/Lemmas/ with the property prefix; property theorems go in lean/SaModel/Props/.

GOAL
{goal}

WHEN DONE (or after about 3 hours of work, whichever comes first): make sure `lake build SaModel sadrv` succeeds and `./check <the properties you touched>` exits 0 in your worktree, update notes/<Cxx>.md and the `level_text` / `level_note` fields of props/<Cxx>.json so that they describe exactly what is now proved and what is still partial (do NOT regenerate MANIFEST.json), commit, and reply with a short report: theorems added (names + one-line statements), hypotheses they carry, what remains unproved, shared files changed, defects of the crate found.  Prefer finishing a smaller theorem completely over leaving a larger one half done: partial progress must still build.
""")
