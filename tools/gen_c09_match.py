#!/usr/bin/env python3
"""Writes lean/SaModel/Lemmas/C09Match.lean: the eliminator of the 46-way string match of
`Dsl.buildDataTypeOfTerm` (walks the matcher's chain of equality tests; `split` on the compiled match is too slow)
and the if-chain `modelArity` that mirrors it.  The arm list below is the arm list of the model function
(lean/SaModel/Codec/Dsl.lean); the file does not build when they differ (the matcher has another type).
Run from the verif root:  python3 tools/gen_c09_match.py"""
import os
ARMS = [("Null",0),("Bool",0),("Boolean",0),("Utf8",0),("LargeUtf8",0),("Utf8View",0),("U8",0),("UInt8",0),("U16",0),
 ("UInt16",0),("U32",0),("UInt32",0),("U64",0),("UInt64",0),("I8",0),("Int8",0),("I16",0),("Int16",0),("I32",0),
 ("Int32",0),("I64",0),("Int64",0),("F16",0),("Float16",0),("F32",0),("Float32",0),("F64",0),("Float64",0),
 ("Date32",0),("Date64",0),("Binary",0),("LargeBinary",0),("FixedSizeBinary",1),("BinaryView",0),("Timestamp",2),
 ("Time32",1),("Time64",1),("Duration",1),("Decimal128",2),("Struct",0),("List",0),("LargeList",0),
 ("FixedSizeList",1),("Dictionary",0),("Map",0),("Union",0)]
N = len(ARMS)
out = []
w = out.append
w("-- written by tools/gen_c09_match.py (arm list of Dsl.buildDataTypeOfTerm); regenerate instead of editing")
w("import SaModel.Codec.Dsl")
w("/-")
w("C09: the 46-way string match of `build_data_type` (model: `Dsl.buildDataTypeOfTerm`) by case analysis on the chain of")
w("equality tests of its matcher.  `modelArity` is that chain as a function (name ↦ number of term arguments of the arm);")
w("`buildDataTypeOfTerm_match_elim` is the induction principle: to prove `P` of the match it is enough to prove it of")
w("every arm under the arm's equations, and of the final `_ => fail!` arm when `modelArity` does not list the pair.")
w("-/")
w("namespace SaModel.Lemmas.C09")
w("open SaModel SaModel.Dsl")
w("")
w("/-- the (name, number of term arguments) pairs the match of `buildDataTypeOfTerm` has an arm for -/")
w("def modelArity (x : String) : Option Nat :=")
chain = "".join(f'  if x = "{n}" then some {k} else\n' for n, k in ARMS) + "  none"
w(chain)
w("")
def hty(k):
    return {0: "Unit → R DataType", 1: "Term → R DataType", 2: "Term → Term → R DataType"}[k]
w("theorem buildDataTypeOfTerm_match_elim (P : R DataType → Prop) (x : String) (l : List Term)")
for i, (n, k) in enumerate(ARMS, 1):
    w(f"    (h_{i} : {hty(k)})")
w(f"    (h_{N+1} : String → List Term → R DataType)")
for i, (n, k) in enumerate(ARMS, 1):
    if k == 0:
        w(f'    (H_{i} : x = "{n}" → l = [] → P (h_{i} ()))')
    elif k == 1:
        w(f'    (H_{i} : ∀ a, x = "{n}" → l = [a] → P (h_{i} a))')
    else:
        w(f'    (H_{i} : ∀ a b, x = "{n}" → l = [a, b] → P (h_{i} a b))')
w(f"    (H_{N+1} : modelArity x ≠ some l.length → P (h_{N+1} x l)) :")
hs = " ".join(f"h_{i}" for i in range(1, N + 2))
w(f"    P (buildDataTypeOfTerm.match_8 (fun _ _ => R DataType) x l {hs}) := by")
w("  unfold buildDataTypeOfTerm.match_8")
w("  have hA : modelArity x = modelArity x := rfl")
w("  conv at hA => rhs; unfold modelArity")
for i, (n, k) in enumerate(ARMS, 1):
    good = {0: f"exact H_{i} rfl rfl", 1: f"exact H_{i} _ rfl rfl", 2: f"exact H_{i} _ _ rfl rfl"}[k]
    w(f'  by_cases c{i} : x = "{n}"')
    w(f"  · rw [dif_pos c{i}]; rw [if_pos c{i}] at hA; subst c{i}")
    w(f"    rcases l with _ | ⟨a, _ | ⟨b, _ | ⟨c, l⟩⟩⟩ <;>")
    w(f"      first | {good} | exact H_{N+1} (by rw [hA]; simp)")
    w(f"  rw [dif_neg c{i}]; rw [if_neg c{i}] at hA")
w(f"  exact H_{N+1} (by rw [hA]; simp)")
w("")
w("/-- the arms as a table -/")
w("def modelTable : List (String × Nat) :=")
w("  [" + ", ".join(f'("{n}", {k})' for n, k in ARMS) + "]")
w("")
w("theorem modelArity_mem (x : String) (n : Nat) (h : modelArity x = some n) : (x, n) ∈ modelTable := by")
w("  unfold modelArity at h")
for i, (n, k) in enumerate(ARMS, 1):
    w(f'  by_cases c{i} : x = "{n}"')
    w(f"  · rw [if_pos c{i}] at h; subst c{i}; cases h; decide")
    w(f"  rw [if_neg c{i}] at h")
w("  cases h")
w("")
w("end SaModel.Lemmas.C09")
path = os.path.join(os.path.dirname(os.path.abspath(__file__)), "..", "lean", "SaModel", "Lemmas", "C09Match.lean")
open(path, "w").write("\n".join(out) + "\n")
print("wrote", os.path.normpath(path))
