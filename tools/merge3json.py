#!/usr/bin/env python3
"""tools/merge3json.py <file>: resolve a merge conflict in a props/*.json file key by key (three-way: base / ours / theirs);
for a key changed on both sides: `rule` = ours + the part theirs appended; other keys: theirs wins if ours == base, ours if theirs == base,
else theirs for level_text / level_note / theorems / lean_targets / audit_modules union, printed as a warning."""
import json, subprocess, sys
f = sys.argv[1]
def show(stage):
    return json.loads(subprocess.run(["git", "show", f":{stage}:{f}"], capture_output=True, text=True, check=True).stdout)
base, ours, theirs = show(1), show(2), show(3)
out = {}
keys = list(ours.keys()) + [k for k in theirs if k not in ours]
for k in keys:
    b, o, t = base.get(k), ours.get(k), theirs.get(k)
    if o == t or t == b:
        v = o
    elif o == b:
        v = t
    else:
        if isinstance(o, list) and isinstance(t, list) and all(not isinstance(x, dict) for x in o + t):
            v = o + [x for x in t if x not in o]
            if b:
                v = [x for x in v if not (x in b and (x not in o or x not in t))]
        elif isinstance(o, str) and isinstance(t, str) and isinstance(b, str) and o.startswith(b) :
            v = t + o[len(b):]
        elif isinstance(o, str) and isinstance(t, str) and isinstance(b, str) and t.startswith(b):
            v = o + t[len(b):]
        else:
            v = t
            print(f"WARNING {f}: key {k} changed on both sides; took theirs", file=sys.stderr)
    if v is not None:
        out[k] = v
json.dump(out, open(f, "w"), indent=1, ensure_ascii=False); open(f, "a").write("\n")
