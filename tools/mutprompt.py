#!/usr/bin/env python3
"""tools/mutprompt.py <Cxx> <tag> [hint]: the prompt for a mutation sub-agent (property text + scratch worktree only)"""
import json, sys
pid, tag = sys.argv[1], sys.argv[2]
hint = sys.argv[3] if len(sys.argv) > 3 else ""
p = {json.loads(l)["id"]: json.loads(l) for l in open("/verif/properties.jsonl")}[pid]
print(f"""You are helping evaluate a verification tool by seeding a realistic regression into a Rust library.

Your working copy: a scratch git worktree of the Rust library chmp/serde_arrow at /tmp/mut/{tag} (work ONLY inside it and in the output directory /tmp/mut/{tag}.out; never read or touch /repo or /verif; never commit).  The sandbox has no network: always pass --offline to cargo.

The property (a guarantee users of the library rely on):

  id: {pid}
  title: {p['title']}
  statement: {p['statement']}
  quantifier: {p['quantifier']['text']}
  code it is anchored in: {', '.join(p['anchors']['files'])}

Task: make ONE small change to the library source (under /tmp/mut/{tag}/serde_arrow/src) that BREAKS this property while
  (a) the crate still compiles (also with `--features arrow-55,arrow2-0-17`),
  (b) the existing test suite still passes unedited: `cd /tmp/mut/{tag} && cargo test --workspace --no-fail-fast --offline` (499 tests pass on the unchanged tree),
  (c) the change looks like something a maintainer could plausibly write (a refactor, an optimisation / fast path, a tidy-up, a 'simplification' of a check, a caching tweak), not sabotage, and
  (d) the breakage needs something SPECIFIC to manifest: a particular multi-step sequence of operations, an unusual but legal input, a particular combination of type / nesting / nullability / offset / option, or two cooperating sites that each look fine alone.  It must NOT be exposed at once by ordinary use (e.g. not 'every string column is now wrong').
{hint}
Then write a demonstration: an integration test file /tmp/mut/{tag}.out/demo_{tag}.rs (it will be copied to serde_arrow/tests/demo_{tag}.rs; it may use only the public API of serde_arrow and its dev-dependencies; if it needs arrow arrays it may use the `arrow-55` / `arrow2-0-17` features through `serde_arrow::_impl::arrow` / `serde_arrow::_impl::arrow2`, and marrow through `serde_arrow::marrow`) that PASSES on the unchanged tree and FAILS with your change.  Verify both yourself (NEVER use `git stash`: the stash is shared between all worktrees of this repository and other agents work in parallel; use `git diff > /tmp/mut/{tag}.out/patch.diff; git checkout -- serde_arrow/src; …; git apply /tmp/mut/{tag}.out/patch.diff`).

Deliverables, all in /tmp/mut/{tag}.out/ :
  patch.diff     — `git -C /tmp/mut/{tag} diff -- serde_arrow/src` (source change only, no test file)
  demo_{tag}.rs  — the demonstration test
  meta.json      — {{"property": "{pid}", "summary": "<what was changed>", "needs": "<what is needed for the breakage to manifest>", "demo_cmd": "cd /tmp/mut/{tag} && cargo test -p serde_arrow --offline [--features arrow-55,arrow2-0-17] --test demo_{tag}", "files_changed": [...]}}

Leave the worktree with the patch applied and the demo copied into serde_arrow/tests/.  When done, reply with a 5-line summary (what changed, what it needs to manifest, the three confirmations: suite passes with change, demo passes without, demo fails with).  Be economical: do not explore the whole crate, read the anchored files, pick a site, make the change, verify.
""")
