#!/usr/bin/env python3
"""tools/rehash.py <agent-repo-worktree>: rewrite commit hashes in known_findings*.json / notes from the hashes of an
agent's repo branch to the hashes of the cherry-picked commits in /repo (matched by subject)."""
import subprocess, sys, glob, re, json
src = sys.argv[1]
def log(d):
    out = subprocess.run(["git", "-C", d, "log", "--format=%h\t%s", "-n", "200"], capture_output=True, text=True).stdout
    return [l.split("\t", 1) for l in out.splitlines() if "\t" in l]
new = {s: h for h, s in log("/repo")}
m = {}
for h, s in log(src):
    if s.startswith("fix:") and s in new and new[s] != h:
        m[h] = new[s]
print(m)
files = glob.glob("/verif/known_findings.d/*.json") + ["/verif/known_findings.json"] + glob.glob("/verif/notes/*.md")
for f in files:
    t = open(f).read()
    t2 = t
    for a, b in m.items():
        t2 = re.sub(r"\b" + a + r"[0-9a-f]*\b", b, t2)
    if t2 != t:
        open(f, "w").write(t2)
        print("updated", f)
