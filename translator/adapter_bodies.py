"""
Generated/AdapterBodies.lean (property C19): the bodies of the adapter methods of serde_arrow/src/{marrow_impl.rs,
arrow_impl.rs, arrow2_impl.rs} as lists of statements.

Read, statement by statement (tokens; comments, line breaks and rustfmt's wrapping do not matter):

  impl ArrayBuilder        to_marrow, to_arrow, to_record_batch, to_arrow2        → `FStep`s + the receiver
  impl Deserializer<'de>   from_marrow, from_arrow, from_record_batch, from_arrow2 → `RStep`s
  fn fields_from_field_refs                                                        → `RStep`s
  every occurrence of `self.schema` in the three files and internal/array_builder.rs → (file, function, use)

Every statement must be one of the shapes in FINISHER_SHAPES / READER_SHAPES below (compared token by token with the
same tokenizer); anything else — another statement, another order is kept as found, a statement more or less, a
`std::mem::take(&mut self.schema)`, a `fields.iter().zip(arrays)` — is refused with file:line (other order / missing
statements are not refused here: they give a different list, which breaks the `decide` obligations of
lean/SaModel/Props/C19Gen.lean).  The vocabulary and its interpretation: lean/SaModel/Backend/AdapterSteps.lean.
"""
import os

from rust_lex import Unrecognised, tokenize, match_close, texts, show

FILES = ["marrow_impl.rs", "arrow_impl.rs", "arrow2_impl.rs"]


def T(src):
    return texts(tokenize(src, "<shape>"))


# ---------------------------------------------------------------- statement shapes

# (shape as Rust source, is it the tail expression, steps) — `{T}` stands for the target type of the array conversion
FINISHER_SHAPES = [
    ("self.build_arrays()", True, [".selfBuildArrays"]),
    ("Ok(self.build_arrays()?.into_iter().map(ArrayRef::try_from).collect::<Result<_, MarrowError>>()?)", True,
     [".selfBuildArrays", '.convertEach "ArrayRef"']),
    ("Ok(self.build_arrays()?.into_iter().map(Box::<dyn Array>::try_from).collect::<Result<_, MarrowError>>()?)", True,
     [".selfBuildArrays", '.convertEach "Box<dyn Array>"']),
    ("let arrays = self.to_arrow()?", False, [".selfToArrow"]),
    ("let fields = Vec::<FieldRef>::try_from(&self.schema)?", False, [".fieldRefsOfSelfSchema"]),
    ("let schema = Schema::new(fields)", False, [".schemaNew"]),
    ("RecordBatch::try_new(Arc::new(schema), arrays).map_err(|err| Error::custom_from(err.to_string(), err))", True,
     [".recordBatchTryNew"]),
]

COUNT_CHECK_HEAD = T("if fields.len() != arrays.len() { fail!(")
COUNT_CHECK_TAIL = T(", fields.len(), arrays.len()); }")

READER_SHAPES = [
    ("let fields = fields_from_field_refs(fields)?", False, [".fieldsFromFieldRefs"]),
    ("let fields = fields.iter().map(Field::try_from).collect::<Result<Vec<_>, MarrowError>>()?", False, [".fieldsEach"]),
    ("Ok(fields.iter().map(|field| Field::try_from(field.as_ref())).collect::<Result<_, MarrowError>>()?)", True,
     [".fieldsEach"]),
    ("let views = arrays.iter().map(|array| View::try_from(array.as_ref())).collect::<Result<Vec<_>, MarrowError>>()?",
     False, [".viewsEach"]),
    ("Deserializer::new(&fields, views)", True, [".deserializerNew"]),
    ("Self::new(fields, views.to_vec())", True, [".deserializerNewOfParams"]),
    ("let schema = record_batch.schema()", False, [".batchSchema"]),
    ("Deserializer::from_arrow(schema.fields(), record_batch.columns())", True, [".fromArrowOfBatchParts"]),
]
# two statements that make one step: a fresh Vec and the loop that fills it
VIEWS_LOOP = [T("let mut views = Vec::new()"), T("for array in arrays { views.push(View::try_from(array.as_ref())?); }")]

FINISHERS = [("marrow_impl.rs", "to_marrow"), ("arrow_impl.rs", "to_arrow"), ("arrow_impl.rs", "to_record_batch"),
             ("arrow2_impl.rs", "to_arrow2")]
READERS = [("marrow_impl.rs", "from_marrow"), ("arrow_impl.rs", "from_arrow"), ("arrow_impl.rs", "from_record_batch"),
           ("arrow2_impl.rs", "from_arrow2")]


# ---------------------------------------------------------------- functions of a file

def functions(path):
    """→ list of dicts {owner, name, sig, body, line}: `owner` is the type of the inherent impl block the function is in
    ("" for a free function, None inside a trait impl / macro); nested functions are not expected and refused"""
    toks = tokenize(open(path, encoding="utf-8").read(), path)
    out = []

    def scan(lo, hi, owner):
        i = lo
        while i < hi:
            t = toks[i]
            if t.kind == "ident" and t.text == "impl" and owner == "":
                j = i + 1
                while j < hi and not (toks[j].kind == "punct" and toks[j].text == "{"):
                    j += 1
                if j >= hi:
                    raise Unrecognised(f"{path}:{t.line}: impl without a body")
                header = texts(toks[i + 1:j])
                close = match_close(toks, j, path)
                if "for" in header:
                    who = None
                else:
                    # the last path segment before the generic arguments of the implementing type
                    h = header
                    if h and h[0] == "<":      # impl<'de> …
                        depth, k = 0, 0
                        while k < len(h):
                            if h[k] == "<":
                                depth += 1
                            elif h[k] == ">":
                                depth -= 1
                                if depth == 0:
                                    break
                            k += 1
                        h = h[k + 1:]
                    cut = h.index("<") if "<" in h else len(h)
                    names = [x for x in h[:cut] if x != "::"]
                    if not names:
                        raise Unrecognised(f"{path}:{t.line}: impl header of an unknown shape: {' '.join(header)}")
                    who = names[-1]
                scan(j + 1, close, who)
                i = close + 1
                continue
            if t.kind == "ident" and t.text == "fn":
                name = toks[i + 1].text
                j = i + 2
                while j < hi and not (toks[j].kind == "punct" and toks[j].text in ("{", ";")):
                    if toks[j].kind == "punct" and toks[j].text in ("(", "["):
                        j = match_close(toks, j, path)
                    j += 1
                if j >= hi or toks[j].text == ";":
                    i = j + 1
                    continue
                close = match_close(toks, j, path)
                out.append({"owner": owner, "name": name, "sig": toks[i + 2:j], "body": toks[j + 1:close], "line": t.line})
                i = close + 1
                continue
            if t.kind == "punct" and t.text in ("{", "(", "["):
                # a block that is neither an impl nor a function body (use lists, macro_rules!, const _: () = {…},
                # attributes): functions inside are not adapter methods
                i = match_close(toks, i, path) + 1
                continue
            i += 1

    scan(0, len(toks), "")
    return toks, out


def statements(body, path):
    """split a body at top-level `;`; a statement that starts with `if` / `for` ends with its block"""
    out, cur, i = [], [], 0
    while i < len(body):
        t = body[i]
        if t.kind == "punct" and t.text in ("(", "[", "{"):
            close = match_close(body, i, path)
            cur.extend(body[i:close + 1])
            i = close + 1
            if t.text == "{" and cur[0].kind == "ident" and cur[0].text in ("if", "for", "while", "loop", "match"):
                if i < len(body) and body[i].kind == "ident" and body[i].text == "else":
                    continue
                out.append((cur, False))
                cur = []
            continue
        if t.kind == "punct" and t.text == ";":
            out.append((cur, False))
            cur = []
            i += 1
            continue
        cur.append(t)
        i += 1
    if cur:
        out.append((cur, True))
    return out


def receiver(sig, path, line):
    if not sig or sig[0].text != "(":
        # generic parameters first
        k = 0
        while k < len(sig) and sig[k].text != "(":
            k += 1
        sig = sig[k:]
    close = match_close(sig, 0, path)
    params = texts(sig[1:close])
    for cand in (["&", "mut", "self"], ["&", "self"], ["mut", "self"], ["self"]):
        if params[:len(cand)] == cand and (len(params) == len(cand) or params[len(cand)] == ","):
            return {"& mut self": "&mut self", "& self": "&self"}.get(" ".join(cand), " ".join(cand))
    return ""


def recognise(stmts, shapes, path, what, reader):
    steps = []
    k = 0
    while k < len(stmts):
        toks, tail = stmts[k]
        ts = texts(toks)
        if reader and ts[:len(COUNT_CHECK_HEAD)] == COUNT_CHECK_HEAD and ts[-len(COUNT_CHECK_TAIL):] == COUNT_CHECK_TAIL \
                and len(ts) == len(COUNT_CHECK_HEAD) + 1 + len(COUNT_CHECK_TAIL) and toks[len(COUNT_CHECK_HEAD)].kind == "str" and not tail:
            fmt = toks[len(COUNT_CHECK_HEAD)].text
            steps.append('.checkCounts "' + fmt.replace("\\", "\\\\").replace('"', '\\"') + '"')
            k += 1
            continue
        if reader and ts == VIEWS_LOOP[0] and k + 1 < len(stmts) and texts(stmts[k + 1][0]) == VIEWS_LOOP[1]:
            steps.append(".viewsEach")
            k += 2
            continue
        for src, is_tail, st in shapes:
            if ts == T(src) and tail == is_tail:
                steps.extend(st)
                break
        else:
            raise Unrecognised(f"{path}:{toks[0].line}: statement of {what} of an unknown shape: {show(toks, 30)}")
        k += 1
    return steps


def self_schema_uses(fname, toks, fns):
    """every `self . schema` in the file with the function it is in and how it is used"""
    spans = []
    uses = []
    for f in fns:
        if f["body"]:
            spans.append((f["body"][0].line, f["body"][-1].line, f["name"]))
    for i in range(len(toks) - 2):
        if toks[i].kind == "ident" and toks[i].text == "self" and toks[i + 1].text == "." and toks[i + 2].kind == "ident" \
                and toks[i + 2].text == "schema":
            line = toks[i].line
            fn = next((n for lo, hi, n in spans if lo <= line <= hi), "?")
            pre = ""
            if i >= 2 and toks[i - 1].text == "mut" and toks[i - 2].text == "&":
                pre = "&mut "
            elif i >= 1 and toks[i - 1].text == "&":
                pre = "&"
            elif i >= 1 and toks[i - 1].text not in ("(", ",", "=", "{", ";"):
                pre = toks[i - 1].text + " "
            post = toks[i + 3].text if i + 3 < len(toks) else ""
            post = "" if post in (")", ",", ";", "?") else " " + post
            uses.append((fname, fn, f"{pre}self.schema{post}"))
    return uses


def render(repo):
    src = os.path.join(repo, "serde_arrow", "src")
    parsed = {}
    for f in FILES:
        path = os.path.join(src, f)
        if not os.path.exists(path):
            raise Unrecognised(f"{path}: missing")
        parsed[f] = functions(path)

    def find(fname, owner, name):
        path = os.path.join(src, fname)
        hits = [fn for fn in parsed[fname][1] if fn["owner"] == owner and fn["name"] == name]
        if len(hits) != 1:
            raise Unrecognised(f"{path}: expected exactly one `fn {name}` in `impl {owner}`, found {len(hits)}"
                               if owner else f"{path}: expected exactly one free `fn {name}`, found {len(hits)}")
        return path, hits[0]

    out = []
    out.append("-- generated by translator/run.py from serde_arrow/src/{marrow_impl.rs, arrow_impl.rs, arrow2_impl.rs} — do not edit;")
    out.append("-- ./check regenerates this file from the repository before every build (committed so that a clean checkout builds)")
    out.append("import SaModel.Backend.AdapterSteps")
    out.append("namespace SaModel.Generated.AdapterBodies")
    out.append("open SaModel.Backend")
    out.append("")
    recv = []
    for fname, name in FINISHERS:
        path, fn = find(fname, "ArrayBuilder", name)
        steps = recognise(statements(fn["body"], path), FINISHER_SHAPES, path, f"ArrayBuilder::{name}", False)
        r = receiver(fn["sig"], path, fn["line"])
        recv.append((name, r))
        out.append(f"/-- {fname} `ArrayBuilder::{name}({r})` -/")
        out.append(f"def {name} : List FStep := [{', '.join(steps)}]")
        out.append("")
    out.append("/-- the receivers of the finishers -/")
    out.append("def finisherReceivers : List (String × String) := [" + ", ".join(f'("{n}", "{r}")' for n, r in recv) + "]")
    out.append("")
    for fname, name in READERS:
        path, fn = find(fname, "Deserializer", name)
        steps = recognise(statements(fn["body"], path), READER_SHAPES, path, f"Deserializer::{name}", True)
        out.append(f"/-- {fname} `Deserializer::{name}` -/")
        out.append(f"def {name} : List RStep := [{', '.join(steps)}]")
        out.append("")
    path, fn = find("arrow_impl.rs", "", "fields_from_field_refs")
    steps = recognise(statements(fn["body"], path), READER_SHAPES, path, "fields_from_field_refs", True)
    out.append("/-- arrow_impl.rs `fields_from_field_refs` -/")
    out.append(f"def fields_from_field_refs : List RStep := [{', '.join(steps)}]")
    out.append("")
    uses = []
    for f in FILES:
        uses += self_schema_uses(f, parsed[f][0], parsed[f][1])
    ab = os.path.join(src, "internal", "array_builder.rs")
    if not os.path.exists(ab):
        raise Unrecognised(f"{ab}: missing")
    ab_toks, ab_fns = functions(ab)
    uses += self_schema_uses("internal/array_builder.rs", ab_toks, ab_fns)
    out.append("/-- every `self.schema` in the three files and in internal/array_builder.rs: (file, function, use) -/")
    out.append("def selfSchemaUses : List (String × String × String) := ["
               + ", ".join(f'("{a}", "{b}", "{c}")' for a, b, c in uses) + "]")
    out.append("")
    out.append("end SaModel.Generated.AdapterBodies")
    return "\n".join(out) + "\n"
