#!/usr/bin/env python3
"""
translator/arith_sites.py (property C16): the inventory of the places where serde_arrow's own code can unwind or
overflow, as a checked artefact tied to the sources.

C16 ("no panic, overflow, abort or hang") is proved as "the `panic` sites of the hand-written model are
unreachable"; such theorems are as strong as the modeller's inventory of sites.  This generator makes the inventory
mechanical:

  * it lexes (rust_lex.py) every non-test `.rs` file under serde_arrow/src/internal/** and serde_arrow/src/*_impl.rs
    (skipped: items under `#[cfg(test)]` / `#[test]`, `mod tests { .. }`, files that are declared `#[cfg(test)] mod x;`)
  * and lists every SITE:  binary `+ - * / % << >>` and their compound assignments, unary `-` on a non-literal,
    `as <integer type>` casts, indexing `x[i]` / range slicing `x[a..b]`, `.unwrap()`, `.expect(..)`, the panicking
    std methods (METHODS below: `copy_from_slice`, `split_at`, `chunks_exact`, `remove`, `swap_remove`, …; allocation
    sized by an argument: `with_capacity`, `reserve`, `resize`, `repeat`, `vec![x; n]`), and the
    macros `unreachable! panic! assert! assert_eq! assert_ne! todo! unimplemented!` (not `debug_assert*`).
    A site is (file, function, kind, normalised expression text, occurrence index) — NO line numbers, so unrelated
    edits do not disturb it.  The lexer does not type expressions: operands that are floats, strings or trait bounds
    are listed too and are classified away (`range:not an integer operation …`).
  * The committed classification translator/arith_sites.json gives every site one of
        model:<Lean definition>@<Lean theorem>   the model has an explicit panic / error site for it, covered by the theorem
        range:<one-line invariant>               cannot overflow / cannot be out of range, with the argument
        test-only                                 compiled under cfg(test) only (the lexer could not see it)
        OPEN                                      not yet argued
    (`checked` operations — checked_add, try_from, get(..) — are not sites and are not listed.)
  * The generator FAILS (obligation `gen_arith_sites` of C16: ./check reports VIOLATION … no-failing-input-found) when
    the sources contain a site the file does not classify, when the file lists a site that no longer exists, when a
    class is malformed, or when a `model:` class names a Lean definition / theorem that does not exist in lean/SaModel.
  * It writes lean/SaModel/Generated/ArithSites.lean (counts per kind and per class, the `model:` references, the
    OPEN sites); `SaModel.Props.C16Gen.gen_arith_sites` is the `decide` obligation that no site is OPEN.

Maintenance: `python3 translator/arith_sites.py --update` rewrites arith_sites.json keeping every existing class,
adding new sites as OPEN and dropping vanished ones (then classify the OPEN ones by hand);
`python3 translator/arith_sites.py --list [substring]` prints the sites with their classes.
"""
import json
import os
import re
import sys

sys.path.insert(0, os.path.dirname(os.path.abspath(__file__)))
from rust_lex import Unrecognised, tokenize, match_close  # noqa: E402

ROOT = os.path.dirname(os.path.dirname(os.path.abspath(__file__)))
JSON_PATH = os.path.join(ROOT, "translator", "arith_sites.json")

INT_TYPES = {"u8", "u16", "u32", "u64", "u128", "usize", "i8", "i16", "i32", "i64", "i128", "isize"}
KEYWORDS = {"as", "break", "const", "continue", "crate", "else", "enum", "extern", "fn", "for", "if", "impl", "in",
            "let", "loop", "match", "mod", "move", "mut", "pub", "ref", "return", "static", "struct", "trait", "type",
            "unsafe", "use", "where", "while", "dyn", "async", "await"}
# identifiers that end an expression although they are keywords-like
EXPR_IDENT_OK = {"self", "Self", "super", "true", "false"}
BINOPS = {"+", "-", "*", "/", "%", "<<", ">>"}
COMPOUND = {"+=", "-=", "*=", "/=", "<<=", ">>="}
MACROS = {"unreachable", "panic", "assert", "assert_eq", "assert_ne", "todo", "unimplemented"}
# std methods that unwind on a bad argument (index out of range, zero chunk size, length mismatch, overflow in debug)
METHODS = {"unwrap", "expect", "unwrap_unchecked", "copy_from_slice", "clone_from_slice", "copy_within", "split_at",
           "split_at_mut", "chunks_exact", "chunks", "windows", "step_by", "remove", "swap_remove", "split_off", "drain",
           "swap", "abs", "pow", "div_euclid", "rem_euclid", "sum", "product", "unwrap_err", "expect_err",
           "rotate_left", "rotate_right", "from_utf8_unchecked",
           # allocation sized by an argument: "capacity overflow" panic / allocation failure abort
           "reserve", "reserve_exact", "resize", "resize_with", "repeat", "with_capacity"}
# … also as path calls (`Vec::with_capacity(n)`)
PATH_CALLS = {"with_capacity"}


# ---------------------------------------------------------------------------------------------------------- files

def source_files(repo):
    src = os.path.join(repo, "serde_arrow", "src")
    if not os.path.isdir(src):
        raise Unrecognised(f"{src}: not a directory")
    out = []
    for name in sorted(os.listdir(src)):
        if name.endswith("_impl.rs"):
            out.append(name)
    for dirpath, dirnames, filenames in os.walk(os.path.join(src, "internal")):
        dirnames.sort()
        for f in sorted(filenames):
            if f.endswith(".rs"):
                out.append(os.path.relpath(os.path.join(dirpath, f), src))
    return src, out


def test_only_modules(src_root, rels):
    """files / directories declared as `#[cfg(test)] mod x;` (or `mod tests;` / `mod test;`) by their parent"""
    skip = set()
    for rel in rels:
        path = os.path.join(src_root, rel)
        toks = tokenize(open(path, encoding="utf-8").read(), rel)
        base = os.path.dirname(rel)
        stem = os.path.basename(rel)[:-3]
        moddir = base if stem in ("mod", "lib") or rel.endswith("_impl.rs") and False else os.path.join(base, stem)
        if stem in ("mod", "lib"):
            moddir = base
        i = 0
        while i < len(toks):
            t = toks[i]
            if t.kind == "ident" and t.text == "mod" and i + 2 < len(toks) and toks[i + 1].kind == "ident" and toks[i + 2].text == ";":
                name = toks[i + 1].text
                if name in ("tests", "test") or has_test_attr(toks, i):
                    skip.add(os.path.normpath(os.path.join(moddir, name + ".rs")))
                    skip.add(os.path.normpath(os.path.join(moddir, name)) + os.sep)
            i += 1
    return skip


def attrs_before(toks, i):
    """the attribute groups `#[..]` that directly precede token i (skipping `pub`, `pub(crate)`): list of token lists"""
    out = []
    j = i - 1
    # skip visibility
    while j >= 0:
        if toks[j].text == ")" and j >= 3 and toks[j - 2].text == "(" and toks[j - 3].text == "pub":
            j -= 4
            continue
        if toks[j].kind == "ident" and toks[j].text in ("pub", "unsafe", "async", "const", "extern"):
            j -= 1
            continue
        if toks[j].kind == "str" and j >= 1 and toks[j - 1].text == "extern":
            j -= 2
            continue
        break
    while j >= 0 and toks[j].text == "]":
        # find the matching '[' backwards
        depth, k = 0, j
        while k >= 0:
            if toks[k].kind == "punct":
                if toks[k].text == "]":
                    depth += 1
                elif toks[k].text == "[":
                    depth -= 1
                    if depth == 0:
                        break
            k -= 1
        if k < 1 or toks[k - 1].text != "#":
            break
        out.append(toks[k + 1:j])
        j = k - 2
    return out


def has_test_attr(toks, i):
    for a in attrs_before(toks, i):
        txt = "".join(t.text for t in a)
        if txt == "test" or txt.startswith("cfg(test") or txt.startswith("cfg(all(test"):
            return True
    return False


# ---------------------------------------------------------------------------------------------------------- text

def is_expr_end(t):
    if t is None:
        return False
    if t.kind in ("num", "str", "char"):
        return True
    if t.kind == "ident":
        return t.text not in KEYWORDS or t.text in EXPR_IDENT_OK
    return t.kind == "punct" and t.text in (")", "]", "?")


WORDY = ("ident", "num", "str", "char", "life")
TIGHT_AFTER = {".", "::", "(", "[", "!", "#", "$"}
TIGHT_BEFORE = {".", "::", "(", ")", "[", "]", ",", ";", "?", "!", ":"}


def render(toks, limit=160):
    """normalised text of a token run (independent of line breaks and rustfmt's wrapping)"""
    out = []
    prev = None
    for idx, t in enumerate(toks):
        text = '"' + t.text.replace("\n", "\\n") + '"' if t.kind == "str" else ("'" + t.text + "'" if t.kind == "char" else t.text)
        if prev is None:
            out.append(text)
        else:
            tight = False
            if prev.kind == "punct" and prev.text in TIGHT_AFTER:
                tight = True
            elif t.kind == "punct" and t.text in TIGHT_BEFORE:
                # `foo (` call vs `if (`: idents hug their brackets except keywords
                tight = not (t.text in ("(", "[") and prev.kind == "ident" and prev.text in KEYWORDS)
                if t.text in ("(", "[") and prev.kind == "punct" and prev.text not in (")", "]", "?", ">"):
                    tight = prev.text in TIGHT_AFTER
            elif prev.kind == "punct" and prev.text in ("&", "*", "-", "!") and not is_expr_end(toks[idx - 2] if idx >= 2 else None):
                tight = True  # prefix operator
            out.append(("" if tight else " ") + text)
        prev = t
    s = "".join(out)
    if len(s) > limit:
        s = s[:limit - 2] + " …"
    return s


def left_operand(toks, i, lo):
    """index of the first token of the postfix-expression chain that ends at toks[i] (i is its last token)"""
    j = i
    while j >= lo:
        t = toks[j]
        if t.kind == "punct" and t.text in (")", "]"):
            depth, k = 0, j
            while k >= lo:
                if toks[k].kind == "punct":
                    if toks[k].text in (")", "]", "}"):
                        depth += 1
                    elif toks[k].text in ("(", "[", "{"):
                        depth -= 1
                        if depth == 0:
                            break
                k -= 1
            if k < lo:
                return lo
            j = k - 1
            # `f(x)` / `x[i]` / `m!(..)`: continue with what precedes the bracket if it is part of the chain
            if j >= lo and (is_expr_end(toks[j]) or toks[j].text in ("!", ">")):
                if toks[j].text == ">":
                    # turbofish `::<T>(`: give up on exactness, stop here
                    return k
                continue
            return k
        if t.kind in WORDY and (t.kind != "ident" or t.text not in KEYWORDS or t.text in EXPR_IDENT_OK or t.text == "as"):
            j -= 1
            if j >= lo and toks[j].kind == "punct" and toks[j].text in (".", "::", "!", "$"):
                j -= 1
                continue
            if j >= lo and toks[j].kind == "ident" and toks[j].text == "as":
                j -= 1
                continue
            if t.kind == "ident" and t.text == "as":
                continue
            # prefix operators
            while j >= lo and toks[j].kind == "punct" and toks[j].text in ("&", "*", "-", "!") and not is_expr_end(toks[j - 1] if j - 1 >= lo else None):
                j -= 1
            if j >= lo and toks[j].kind == "ident" and toks[j].text == "mut" and j - 1 >= lo and toks[j - 1].text == "&":
                j -= 2
            return j + 1
        if t.kind == "punct" and t.text == "?":
            j -= 1
            continue
        if t.kind == "punct" and t.text == "!" and j - 1 >= lo and toks[j - 1].kind == "ident":
            j -= 1                     # `write!(..)`
            continue
        return j + 1
    return lo


def right_operand(toks, i, hi):
    """index just after the unary-prefixed postfix chain that starts at toks[i]"""
    j = i
    while j < hi and toks[j].kind == "punct" and toks[j].text in ("-", "*", "&", "!"):
        j += 1
    if j < hi and toks[j].kind == "ident" and toks[j].text == "mut":
        j += 1
    started = False
    while j < hi:
        t = toks[j]
        if t.kind == "punct" and t.text in ("(", "["):
            if started and not (toks[j - 1].kind != "punct" or toks[j - 1].text in (")", "]", "?", "!", ">")):
                break
            j = match_close(toks, j) + 1
            started = True
            continue
        if t.kind in WORDY and (t.kind != "ident" or t.text not in KEYWORDS or t.text in EXPR_IDENT_OK):
            if started and toks[j - 1].kind in WORDY and toks[j - 1].text != "as":
                break
            j += 1
            started = True
            continue
        if t.kind == "punct" and t.text in (".", "::", "?", "!") and started:
            j += 1
            continue
        if t.kind == "ident" and t.text == "as" and started:
            j += 1
            continue
        break
    return j


PREC = {"*": 3, "/": 3, "%": 3, "+": 2, "-": 2, "<<": 1, ">>": 1}


def left_operand_prec(toks, i, p):
    """first token of the left operand of the binary operator at i (precedence p; left associative): the maximal run of
    postfix chains joined by operators of precedence >= p"""
    lo = left_operand(toks, i - 1, 0)
    while lo >= 2:
        o = toks[lo - 1]
        if o.kind == "punct" and o.text in PREC and PREC[o.text] >= p and is_expr_end(toks[lo - 2]) \
                and not (toks[lo - 2].text == ")" and macro_repetition(toks, lo - 2)):
            lo = left_operand(toks, lo - 2, 0)
        else:
            break
    return lo


def right_operand_prec(toks, i, hi, p):
    """index after the right operand of the binary operator at i: a postfix chain followed by operators of precedence > p"""
    j = right_operand(toks, i + 1, hi)
    while j < hi and toks[j].kind == "punct" and toks[j].text in PREC and PREC[toks[j].text] > p:
        j = right_operand(toks, j + 1, hi)
    return j


def macro_repetition(toks, close):
    """toks[close] == ')' : is it the end of a `$( … )` group of a macro?"""
    depth, k = 0, close
    while k >= 0:
        if toks[k].kind == "punct":
            if toks[k].text in (")", "]", "}"):
                depth += 1
            elif toks[k].text in ("(", "[", "{"):
                depth -= 1
                if depth == 0:
                    break
        k -= 1
    return k >= 1 and toks[k - 1].text == "$"


def closes_generics(toks, i):
    """toks[i] == '>>' : does it close two generic argument lists (`Vec<Vec<u8>>`, `collect::<Result<Vec<_>, E>>()`)?"""
    depth, j, steps = 2, i - 1, 0
    while j >= 0 and steps < 120:
        t = toks[j]
        if t.kind == "punct":
            if t.text == ">":
                depth += 1
            elif t.text == ">>":
                depth += 2
            elif t.text == "<":
                depth -= 1
                if depth == 0:
                    before = toks[j - 1] if j > 0 else None
                    return before is not None and (before.text == "::" or (before.kind == "ident" and before.text[:1].isupper()))
            elif t.text in (";", "{", "}", "=", "&&", "||", "+", "/", "%"):
                return False
        j -= 1
        steps += 1
    return False


# ---------------------------------------------------------------------------------------------------------- scan

class Site:
    __slots__ = ("file", "fn", "kind", "expr", "n", "line", "at", "fn_close", "guards")

    def __init__(self, file, fn, kind, expr, line, at=-1, fn_close=-1):
        self.file, self.fn, self.kind, self.expr, self.n, self.line = file, fn, kind, expr, 0, line
        self.at, self.fn_close, self.guards = at, fn_close, []

    def key(self):
        return (self.file, self.fn, self.kind, self.expr, self.n)


def impl_self_type(header):
    """`impl<..> Trait<..> for Type<..> where ..` / `impl<..> Type<..>` → `Type`"""
    toks = header
    # cut a where clause
    for k, t in enumerate(toks):
        if t.kind == "ident" and t.text == "where":
            toks = toks[:k]
            break
    depth = 0
    last_for = -1
    for k, t in enumerate(toks):
        if t.kind == "punct":
            if t.text == "<":
                depth += 1
            elif t.text == ">":
                depth -= 1
            elif t.text == ">>":
                depth -= 2
        elif t.kind == "ident" and t.text == "for" and depth == 0:
            last_for = k
    rest = toks[last_for + 1:] if last_for >= 0 else toks
    # skip leading generics of `impl<..>`
    k = 0
    if last_for < 0 and rest and rest[0].text == "<":
        depth = 0
        while k < len(rest):
            if rest[k].text == "<":
                depth += 1
            elif rest[k].text == ">":
                depth -= 1
                if depth == 0:
                    k += 1
                    break
            elif rest[k].text == ">>":
                depth -= 2
                if depth <= 0:
                    k += 1
                    break
            k += 1
    name = None
    depth = 0
    for t in rest[k:]:
        if t.kind == "punct" and t.text == "<":
            depth += 1
        elif t.kind == "punct" and t.text == ">":
            depth -= 1
        elif t.kind == "punct" and t.text == ">>":
            depth -= 2
        elif t.kind == "ident" and depth == 0 and t.text not in ("dyn", "mut", "const"):
            name = t.text  # the last path segment at depth 0
    if last_for >= 0:
        # keep the trait too: two impls of different traits for one type may define the same method name
        tr = None
        depth = 0
        seen_generics = False
        for t in toks[:last_for]:
            if t.kind == "punct" and t.text == "<":
                depth += 1
            elif t.kind == "punct" and t.text == ">":
                depth -= 1
            elif t.kind == "punct" and t.text == ">>":
                depth -= 2
            elif t.kind == "ident" and depth == 0:
                tr = t.text
        return f"{name}<{tr}>" if tr else (name or "?")
    return name or "?"


def scan_file(rel, src):
    toks = tokenize(src, rel)
    n = len(toks)
    sites = []
    # scope stack entries: (close_index, kind, name); kind in fn / impl / trait / mod / macro / skip / sig
    scopes = []
    skip_until = -1          # tokens up to this index belong to a test-only item
    nosite_until = -1        # tokens up to this index are a signature / type context (no expression sites)

    def fn_name():
        parts = []
        for _, kind, name in scopes:
            if kind in ("mod", "macro"):
                parts.append(name + ("!" if kind == "macro" else ""))
        owner = None
        for _, kind, name in scopes:
            if kind in ("impl", "trait"):
                owner = name
            elif kind == "fn":
                pass
        fns = [name for _, kind, name in scopes if kind == "fn"]
        if owner:
            parts.append(owner)
        if fns:
            parts.append(fns[0] if len(fns) == 1 else fns[0] + "/" + fns[-1])
        return "::".join(parts) if parts else "<top>"

    def item_end(i):
        """index of the last token of the item that starts at i (up to its `;` or the `}` of its first top-level block)"""
        j = i
        while j < n:
            t = toks[j]
            if t.kind == "punct":
                if t.text in ("(", "["):
                    j = match_close(toks, j, rel)
                elif t.text == "{":
                    return match_close(toks, j, rel)
                elif t.text == ";":
                    return j
            j += 1
        return n - 1

    def emit(kind, lo, hi, at):
        fn_closes = [c for c, k, _ in scopes if k == "fn"]
        sites.append(Site(rel, fn_name(), kind, render(toks[lo:hi]), toks[at].line, at, fn_closes[-1] if fn_closes else -1))

    i = 0
    while i < n:
        while scopes and scopes[-1][0] < i:
            scopes.pop()
        t = toks[i]
        if i <= skip_until:
            i += 1
            continue
        # ---- items
        if t.kind == "ident" and t.text in ("fn", "mod", "impl", "trait", "struct", "enum", "use", "type", "const", "static", "macro_rules") \
                and (i == 0 or toks[i - 1].text != "." and toks[i - 1].text != "::"):
            is_item = True
            if t.text == "const" and i + 1 < n and toks[i + 1].text in ("fn", "{"):
                is_item = False        # `const fn` (handled at `fn`) / const block
            if t.text in ("impl", "type", "const", "static", "use", "struct", "enum", "trait", "mod") and i > 0 and toks[i - 1].kind == "punct" \
                    and toks[i - 1].text in ("<", ",", "&", "(", ":", "->", "=", "+") and t.text == "impl":
                is_item = False        # `impl Trait` in type position
            if t.text == "macro_rules" and not (i + 1 < n and toks[i + 1].text == "!"):
                is_item = False
            if is_item:
                if has_test_attr(toks, i):
                    skip_until = item_end(i)
                    i += 1
                    continue
                if t.text == "mod":
                    name = toks[i + 1].text
                    end = item_end(i)
                    if toks[end].text == "}" and name in ("tests", "test"):
                        skip_until = end
                    elif toks[end].text == "}":
                        j = i
                        while toks[j].text != "{":
                            j += 1
                        scopes.append((end, "mod", name))
                        i = j + 1
                        continue
                    i = end + 1 if toks[end].text == ";" else i + 1
                    continue
                if t.text in ("use", "type", "struct", "enum"):
                    end = item_end(i)
                    # array lengths in field types (`[u8; N]`) are constants: no sites in type items
                    i = end + 1
                    continue
                if t.text in ("const", "static"):
                    # `const X: T = <expr>;` is evaluated at compile time (an overflow is a compile error): no sites
                    end = item_end(i)
                    i = end + 1
                    continue
                if t.text in ("impl", "trait"):
                    j = i + 1
                    while j < n and toks[j].text != "{" and toks[j].text != ";":
                        if toks[j].text in ("(", "["):
                            j = match_close(toks, j, rel)
                        j += 1
                    if j >= n or toks[j].text == ";":
                        i = j + 1
                        continue
                    header = toks[i + 1:j]
                    name = impl_self_type(header) if t.text == "impl" else toks[i + 1].text
                    scopes.append((match_close(toks, j, rel), t.text, name))
                    i = j + 1
                    continue
                if t.text == "macro_rules":
                    name = toks[i + 2].text
                    j = i + 3
                    end = match_close(toks, j, rel)
                    scopes.append((end, "macro", name))
                    i = j + 1
                    continue
                if t.text == "fn":
                    name = toks[i + 1].text
                    j = i + 2
                    while j < n and toks[j].text not in ("{", ";"):
                        if toks[j].text in ("(", "["):
                            j = match_close(toks, j, rel)
                        j += 1
                    if j >= n or toks[j].text == ";":
                        i = j + 1      # a declaration without body
                        continue
                    scopes.append((match_close(toks, j, rel), "fn", name))
                    i = j + 1          # the signature holds no expression
                    continue
        # ---- `let x: T =` / closure parameter types / `as T` / turbofish: no special handling (see the filters below)
        prev = toks[i - 1] if i > 0 else None
        nxt = toks[i + 1] if i + 1 < n else None
        in_code = any(k in ("fn", "macro") for _, k, _ in scopes)
        if not in_code:
            i += 1
            continue
        lo_bound = 0
        for close, kind, name in scopes:
            pass
        # ---- macros
        if t.kind == "ident" and t.text in MACROS and nxt is not None and nxt.text == "!" and i + 2 < n and toks[i + 2].text in ("(", "[", "{") \
                and not (prev is not None and prev.text in (".", "::") and False):
            end = match_close(toks, i + 2, rel)
            emit("macro", i, end + 1, i)
            i += 1
            continue
        # ---- method calls
        if t.kind == "ident" and t.text in METHODS and prev is not None and prev.text == "." and nxt is not None and (nxt.text == "(" or nxt.text == "::"):
            j = i + 1
            if toks[j].text == "::":      # turbofish `.sum::<T>()`
                while j < n and toks[j].text != "(":
                    j += 1
            end = match_close(toks, j, rel)
            lo = left_operand(toks, i - 2, 0) if i >= 2 else i
            emit("call:" + t.text, lo, end + 1, i)
            i += 1
            continue
        if t.kind == "ident" and t.text in PATH_CALLS and prev is not None and prev.text == "::" and nxt is not None and nxt.text == "(":
            end = match_close(toks, i + 1, rel)
            lo = left_operand(toks, i, 0)
            emit("call:" + t.text, lo, end + 1, i)
            i += 1
            continue
        # ---- `vec![x; n]`
        if t.kind == "ident" and t.text == "vec" and nxt is not None and nxt.text == "!" and i + 2 < n and toks[i + 2].text == "[":
            end = match_close(toks, i + 2, rel)
            depth = 0
            for u in toks[i + 3:end]:
                if u.kind == "punct":
                    if u.text in ("(", "[", "{"):
                        depth += 1
                    elif u.text in (")", "]", "}"):
                        depth -= 1
                    elif u.text == ";" and depth == 0:
                        emit("call:vec-repeat", i, end + 1, i)
                        break
        # ---- casts
        if t.kind == "ident" and t.text == "as" and nxt is not None and nxt.kind == "ident" and nxt.text in INT_TYPES and is_expr_end(prev):
            lo = left_operand(toks, i - 1, 0)
            emit("cast", lo, i + 2, i)
            i += 1
            continue
        # ---- indexing / slicing
        if t.kind == "punct" and t.text == "[" and is_expr_end(prev) and not (prev.kind == "ident" and prev.text in KEYWORDS):
            end = match_close(toks, i, rel)
            inner = toks[i + 1:end]
            depth = 0
            is_slice = False
            for u in inner:
                if u.kind == "punct":
                    if u.text in ("(", "[", "{"):
                        depth += 1
                    elif u.text in (")", "]", "}"):
                        depth -= 1
                    elif u.text in ("..", "..=") and depth == 0:
                        is_slice = True
            lo = left_operand(toks, i - 1, 0)
            # `$x:ty [` cannot occur; attribute brackets have `#` / `!` before them (not expression ends)
            emit("slice" if is_slice else "index", lo, end + 1, i)
            i += 1
            continue
        # ---- operators
        if t.kind == "punct" and (t.text in BINOPS or t.text in COMPOUND or (t.text == "%" and nxt is not None and nxt.text == "=")):
            op = t.text
            if op in COMPOUND or (op == "%" and nxt is not None and nxt.text == "="):
                lo = left_operand(toks, i - 1, 0)
                start_r = i + (2 if op == "%" else 1)
                hi = right_operand(toks, start_r, n)
                emit("op:" + (op if op in COMPOUND else "%="), lo, hi, i)
                i += 1
                continue
            if not is_expr_end(prev):
                # prefix position: unary minus (a site unless it negates a literal), deref, `-> T` is its own token
                if op == "-" and nxt is not None and nxt.kind != "num":
                    hi = right_operand(toks, i + 1, n)
                    emit("neg", i, hi, i)
                i += 1
                continue
            if op == ">>" and (not (nxt is not None and (nxt.kind == "num" or nxt.text == "(" or (nxt.kind == "ident" and nxt.text not in KEYWORDS)))
                               or closes_generics(toks, i)):
                i += 1                 # closing of nested generics `Vec<Vec<u8>>`, `collect::<Result<Vec<_>>>()`
                continue
            if prev.text == ")" and macro_repetition(toks, i - 1):
                i += 1                 # `$( … )*` / `$( … )+` in a macro_rules matcher or transcriber
                continue
            if op == "+" and ((nxt is not None and nxt.kind == "life") or (prev is not None and prev.kind == "life")):
                i += 1                 # `dyn Trait + 'a`
                continue
            if op == "+" and in_bound(toks, i):
                i += 1
                continue
            lo = left_operand_prec(toks, i, PREC[op])
            hi = right_operand_prec(toks, i, n, PREC[op])
            if all(u.kind == "num" or (u.kind == "punct" and (u.text in BINOPS or u.text in ("(", ")"))) for u in toks[lo:hi]):
                i += 1                 # a constant expression of literals: folded (and overflow-checked) by the compiler
                continue
            emit("op:" + op, lo, hi, i)
            i += 1
            continue
        i += 1
    # occurrence indices
    seen = {}
    for s in sites:
        k = (s.fn, s.kind, s.expr)
        s.n = seen.get(k, 0)
        seen[k] = s.n + 1
    find_guards(toks, sites)
    return sites


# ---------------------------------------------------------------------------------------------------------- guards

GUARD_STOP = {"self", "Self", "as", "mut", "usize", "u8", "u16", "u32", "u64", "u128", "i8", "i16", "i32", "i64", "i128",
              "MAX", "MIN", "is_empty", "try_into_usize", "unwrap", "clone"}
DIVERGE = {"fail", "return", "break", "continue", "bail", "panic", "unreachable"}
ASSIGN = {"=", "+=", "-=", "*=", "/=", "<<=", ">>="}


def idents_of(text):
    """the variables / fields a normalised expression mentions: identifiers that are not called (`x.len()`, `i64::from(..)`),
    not a path prefix (`i32::`), not a type or a keyword-like word"""
    out = set()
    for m in re.finditer(r"[A-Za-z_][A-Za-z0-9_]*", text):
        w = m.group(0)
        rest = text[m.end():]
        if w in GUARD_STOP or rest.startswith("(") or rest.startswith("::") or rest.startswith("!"):
            continue
        out.add(w)
    return out


def find_guards(toks, sites):
    """For every site: the comparisons of the SAME function that syntactically dominate it (Site.guards, normalised texts):

        if C          an earlier statement `if C { fail!(..) | return .. | break | continue }` without `else`, in a block that
                      encloses the site: the site is reached only with C false
        while C       an earlier statement `while C { .. }` (no `break` inside) in an enclosing block: C is false behind it
        assert C      an earlier statement `assert!(C ..)` in an enclosing block
        in-if C       the site lies in the then-block of `if C { .. }` (`else if` too)       C holds at the site
        in-while C    the site lies in the body of `while C { .. }`
        in-else C     the site lies in the else part of `if C { .. } else ..` (a later condition of the chain, a later
                      block, the final else block): C is false at the site
        arm C         the site lies in the match arm `pat if C => ..`

    and no identifier the comparison shares with the site is assigned (`x = `, `x += `, `let x`) between the comparison and
    the site.  Purely syntactic: no types, no aliasing, no knowledge of what `fail!` expands to beyond its name."""
    n = len(toks)
    opener = {}               # index of a closing bracket -> its opener, and the reverse
    closer = {}
    stack = []
    encl = [None] * n         # innermost open bracket index at each token
    for i, t in enumerate(toks):
        if t.kind == "punct" and t.text in ("(", "[", "{"):
            encl[i] = stack[-1] if stack else None
            stack.append(i)
        elif t.kind == "punct" and t.text in (")", "]", "}"):
            if stack:
                o = stack.pop()
                opener[i], closer[o] = o, i
            encl[i] = stack[-1] if stack else None
        else:
            encl[i] = stack[-1] if stack else None

    def stmt_start(i):
        return i > 0 and toks[i - 1].kind == "punct" and toks[i - 1].text in ("{", "}", ";")

    def cond_until_brace(i):
        """tokens after toks[i] (`if` / `while`) up to the `{` that opens its block → (cond tokens, index of `{`)"""
        j = i + 1
        while j < n:
            t = toks[j]
            if t.kind == "punct" and t.text in ("(", "["):
                j = closer.get(j, n)
            elif t.kind == "punct" and t.text == "{":
                return toks[i + 1:j], j
            elif t.kind == "punct" and t.text in (";", "}"):
                return None, -1
            j += 1
        return None, -1

    def diverges(o):
        c = closer.get(o)
        if c is None or c <= o + 1:
            return False
        if not (toks[o + 1].kind == "ident" and toks[o + 1].text in DIVERGE):
            return False
        j = o + 1
        while j < c:
            t = toks[j]
            if t.kind == "punct" and t.text in ("(", "[", "{"):
                j = closer.get(j, c)
            elif t.kind == "punct" and t.text == ";" and j != c - 1:
                return False
            j += 1
        return True

    def assigned_between(names, lo, hi):
        for j in range(lo, hi):
            t = toks[j]
            if t.kind == "ident" and t.text in names:
                nx = toks[j + 1] if j + 1 < n else None
                if nx is not None and nx.kind == "punct" and nx.text in ASSIGN:
                    return True
                pv = toks[j - 1]
                if pv.kind == "ident" and pv.text in ("let", "mut") and not (j >= 2 and toks[j - 2].text == "&"):
                    return True
        return False

    def owner_if(b, lo):
        """b is a `{`: the `if` / `while` token whose block it opens (None when it is another kind of block)"""
        k = b - 1
        while k > lo:
            t = toks[k]
            if t.kind == "punct" and t.text in (")", "]"):
                k = opener.get(k, lo)
            elif t.kind == "punct" and t.text in ("{", "}", ";", "=>"):
                return None
            elif t.kind == "ident" and t.text in ("if", "while"):
                return k if cond_until_brace(k)[1] == b else None
            k -= 1
        return None

    def else_chain(start, lo, add):
        """`start` is an `if` token or the `{` of an else block: every `if C { .. } else` in front of it contributes `in-else C`"""
        cur = start
        while cur - 2 > lo and toks[cur - 1].kind == "ident" and toks[cur - 1].text == "else" and toks[cur - 2].text == "}":
            pb = opener.get(cur - 2)
            if pb is None:
                return
            oi = owner_if(pb, lo)
            if oi is None or toks[oi].text != "if":
                return
            cond, _ = cond_until_brace(oi)
            add("in-else", cond, cur)
            cur = oi

    def arm_guard(arrow, lo, add):
        """arrow is the `=>` of a match arm: `pat if C =>` contributes `arm C`"""
        m = arrow - 1
        while m > lo:
            u = toks[m]
            if u.kind == "punct" and u.text in (")", "]", "}"):
                m = opener.get(m, lo)
            elif u.kind == "punct" and u.text in ("{", ";", ",", "=>"):
                return
            elif u.kind == "ident" and u.text == "if":
                add("arm", toks[m + 1:arrow], arrow)
                return
            m -= 1

    for s in sites:
        if s.at < 0 or s.fn_close < 0 or s.fn_close not in opener:
            continue
        fn_open = opener[s.fn_close]
        site_ids = idents_of(s.expr)
        found = []

        def add(kind, cond, after):
            if not cond or (cond[0].kind == "ident" and cond[0].text == "let"):
                return
            text = render(cond, 200)
            shared = idents_of(text) & site_ids
            if not shared or assigned_between(shared, after, s.at - 1):
                return
            g = f"{kind} {text}"
            if g not in found:
                found.append(g)

        # enclosing blocks, innermost first
        o = encl[s.at]
        while o is not None and o >= fn_open:
            if toks[o].text == "{":
                # (a) the block itself is the body of `if C` / `while C`, or the else part of `if C { .. } else ..`
                oi = owner_if(o, fn_open)
                if oi is not None:
                    cond, _ = cond_until_brace(oi)
                    add("in-" + toks[oi].text, cond, o)
                    if toks[oi].text == "if":
                        else_chain(oi, fn_open, add)
                else:
                    else_chain(o, fn_open, add)
                    if o - 1 > fn_open and toks[o - 1].text == "=>":
                        arm_guard(o - 1, fn_open, add)      # `pat if C => { <site> }`
                # (b) earlier statements of this block
                j = o + 1
                while j < s.at:
                    t = toks[j]
                    if t.kind == "punct" and t.text in ("(", "[", "{"):
                        c = closer.get(j, n)
                        if c >= s.at:
                            break             # the bracket that (transitively) holds the site: handled one level further in
                        j = c + 1
                        continue
                    if t.kind == "ident" and t.text in ("if", "while") and stmt_start(j):
                        cond, b = cond_until_brace(j)
                        if cond is not None and b in closer and closer[b] < s.at:
                            c = closer[b]
                            nxt = toks[c + 1] if c + 1 < n else None
                            if t.text == "if" and not (nxt is not None and nxt.kind == "ident" and nxt.text == "else") and diverges(b):
                                add("if", cond, c)
                            elif t.text == "while" and not any(u.kind == "ident" and u.text == "break" for u in toks[b:c]):
                                add("while", cond, c)
                            j = c + 1
                            continue
                    if t.kind == "ident" and t.text == "assert" and stmt_start(j) and j + 2 < n and toks[j + 1].text == "!" and toks[j + 2].text == "(":
                        c = closer.get(j + 2, n)
                        if c < s.at:
                            inner, depth = [], 0
                            for u in toks[j + 3:c]:
                                if u.kind == "punct" and u.text in ("(", "[", "{"):
                                    depth += 1
                                elif u.kind == "punct" and u.text in (")", "]", "}"):
                                    depth -= 1
                                elif u.kind == "punct" and u.text == "," and depth == 0:
                                    break
                                inner.append(u)
                            add("assert", inner, c)
                            j = c + 1
                            continue
                    j += 1
            o = encl[o]
        # (c') the site lies in the CONDITION of an `else if`: the earlier conditions of the chain are false
        k = s.at - 1
        while k > fn_open:
            t = toks[k]
            if t.kind == "punct" and t.text in (")", "]", "}"):
                k = opener.get(k, fn_open)
            elif t.kind == "punct" and t.text in ("{", ";"):
                break
            elif t.kind == "ident" and t.text == "if":
                if cond_until_brace(k)[1] > s.at:
                    else_chain(k, fn_open, add)
                break
            k -= 1
        # (c) match arm `pat if C => <site>`: walk left from the site over balanced brackets to the `=>` of its arm
        k = s.at - 1
        while k > fn_open:
            t = toks[k]
            if t.kind == "punct" and t.text in (")", "]", "}"):
                k = opener.get(k, fn_open)
            elif t.kind == "punct" and t.text in ("{", ";", ","):
                if t.text == "{" and k - 1 > fn_open and toks[k - 1].text == "=>":
                    k -= 1
                    continue
                break
            elif t.kind == "punct" and t.text == "=>":
                m = k - 1
                while m > fn_open:
                    u = toks[m]
                    if u.kind == "punct" and u.text in (")", "]", "}"):
                        m = opener.get(m, fn_open)
                    elif u.kind == "punct" and u.text in ("{", ";", ",", "=>"):
                        break
                    elif u.kind == "ident" and u.text == "if":
                        add("arm", toks[m + 1:k], k)
                        break
                    m -= 1
                break
            k -= 1
        s.guards = found


def in_bound(toks, i):
    """is the `+` at i part of a trait bound (`dyn A + B`, `impl A + B`, `T: A + B`, `where T: A + B`)?  Walk left over
    path tokens and balanced generics to the token that introduces the type."""
    j = i - 1
    depth = 0
    steps = 0
    while j >= 0 and steps < 60:
        t = toks[j]
        if t.kind == "punct" and t.text in (">", ">>"):
            depth += 1 if t.text == ">" else 2
        elif t.kind == "punct" and t.text == "<":
            if depth == 0:
                return False
            depth -= 1
        elif depth == 0:
            if t.kind == "ident" and t.text in ("dyn", "impl"):
                return True
            if t.kind == "punct" and t.text == ":" and j > 0 and toks[j - 1].kind == "ident":
                # `T: A + B` in generics / where clauses; `x: T + ..` cannot be an expression
                return True
            if t.kind == "punct" and t.text == "+":
                pass
            elif not (t.kind in ("ident", "life") or (t.kind == "punct" and t.text in ("::", "?"))):
                return False
        j -= 1
        steps += 1
    return False


def scan(repo):
    src_root, rels = source_files(repo)
    skip = test_only_modules(src_root, rels)
    sites = []
    for rel in rels:
        norm = os.path.normpath(rel)
        if norm in skip or any(norm.startswith(d) for d in skip if d.endswith(os.sep)):
            continue
        base = os.path.basename(rel)
        if base in ("tests.rs", "test.rs") or "/tests/" in "/" + rel or "/test/" in "/" + rel:
            continue
        text = open(os.path.join(src_root, rel), encoding="utf-8").read()
        try:
            sites.extend(scan_file(rel, text))
        except Unrecognised as e:
            raise Unrecognised(f"serde_arrow/src/{rel}: {e}")
    return sites


# ---------------------------------------------------------------------------------------------------------- classification

GUARD_KINDS = ("if", "while", "assert", "in-if", "in-while", "in-else", "arm")
CLASS_RE = re.compile(r"^(OPEN|test-only|range:.{8,}|guard:(?:if|while|assert|in-if|in-while|in-else|arm) .+|model:[A-Za-z0-9_.'!?]+@[A-Za-z0-9_.'!?]+(?: .*)?)$", re.S)
GUARD_SEP = " -- "


def guard_of(cls, field):
    """the dominating comparison a row claims: the text of a `guard:<kind> <condition> -- <remark>` class, or the row's
    optional "guard" field (a `model:` / `range:` site that ALSO sits behind a recognised comparison)"""
    if cls.startswith("guard:"):
        return cls[len("guard:"):].split(GUARD_SEP)[0].strip()
    return field


def load_classes():
    try:
        with open(JSON_PATH, encoding="utf-8") as f:
            doc = json.load(f)
    except OSError as e:
        raise Unrecognised(f"translator/arith_sites.json: cannot read: {e}")
    except ValueError as e:
        raise Unrecognised(f"translator/arith_sites.json: not valid JSON: {e}")
    table = {}
    GUARDS.clear()
    reasons = doc.get("reasons", {})
    for file, fns in doc.get("sites", {}).items():
        for fn, rows in fns.items():
            for row in rows:
                key = (file, fn, row["kind"], row["expr"], row.get("n", 0))
                if key in table:
                    raise Unrecognised(f"translator/arith_sites.json: duplicate entry {key}")
                cls = row.get("class", "OPEN")
                # `@name` refers to an entry of the top-level "reasons" table (shared one-line arguments)
                if cls.startswith("@"):
                    if cls[1:] not in reasons:
                        raise Unrecognised(f"translator/arith_sites.json: {key}: unknown shared reason {cls}")
                    cls = reasons[cls[1:]]
                table[key] = cls
                g = guard_of(cls, row.get("guard"))
                if g:
                    GUARDS[key] = g
    return doc, table


GUARDS = {}     # site key -> claimed dominating comparison (filled by load_classes)


def lean_names():
    names = set()
    base = os.path.join(ROOT, "lean", "SaModel")
    decl = re.compile(r"^\s*(?:private\s+|protected\s+|noncomputable\s+|@\[[^\]]*\]\s*)*(?:def|theorem|abbrev|instance|structure|inductive)\s+([A-Za-z_][A-Za-z0-9_.'!?]*)", re.M)
    for dirpath, _, files in os.walk(base):
        if os.sep + "Generated" in dirpath:
            continue
        for f in files:
            if f.endswith(".lean"):
                txt = open(os.path.join(dirpath, f), encoding="utf-8").read()
                for m in decl.finditer(txt):
                    names.add(m.group(1).split(".")[-1])
    return names


def check(sites, table):
    problems = []
    have = {}
    for s in sites:
        have[s.key()] = s
    # code motion inside one file (a site moved into a helper, a function renamed, an occurrence index shifted) keeps the
    # expression and its kind: an unclassified site is paired with a vanished entry of the same (file, kind, expression)
    # and inherits its class; only what cannot be paired is a problem (false-alarm probe g02: pure code motion)
    new_sites = [k for k in have if k not in table]
    gone = [k for k in table if k not in have]
    pool = {}
    for k in gone:
        pool.setdefault((k[0], k[2], k[3]), []).append(k)
    moved = set()
    for k in sorted(new_sites):
        cands = pool.get((k[0], k[2], k[3]))
        if cands:
            old = cands.pop(0)
            moved.add(old)
            table[k] = table[old]          # the moved site inherits the class of the entry it is paired with
            if old in GUARDS:
                GUARDS[k] = GUARDS[old]    # … and its claimed guard, which has to be found again where the site is now
        else:
            s = have[k]
            problems.append(f"unclassified site serde_arrow/src/{s.file}:{s.line} in `{s.fn}` [{s.kind}] `{s.expr}` #{s.n}")
    for k in gone:
        if k not in moved:
            problems.append(f"arith_sites.json lists a site that no longer exists: {k[0]} `{k[1]}` [{k[2]}] `{k[3]}` #{k[4]}")
    # a claimed guard has to be recognised in the sources: same function, dominating the site, diverging (see find_guards)
    for k, g in GUARDS.items():
        s = have.get(k)
        if s is None:
            continue
        if g.split(" ")[0] not in GUARD_KINDS:
            problems.append(f"malformed guard {g!r} for {k[0]} `{k[1]}` `{k[3]}`")
        elif g not in s.guards:
            seen_g = "; ".join(s.guards) if s.guards else "none"
            problems.append(f"guard `{g}` of serde_arrow/src/{s.file}:{s.line} in `{s.fn}` [{s.kind}] `{s.expr}` #{s.n} is not recognised "
                            f"in the sources (deleted, weakened, reordered or moved out of the function?); dominating comparisons found: {seen_g}")
    names = None
    for k, cls in table.items():
        if not CLASS_RE.match(cls):
            problems.append(f"malformed class {cls!r} for {k[0]} `{k[1]}` `{k[3]}`")
        elif cls.startswith("model:"):
            if names is None:
                names = lean_names()
            ref = cls[len("model:"):].split(" ")[0]
            d, th = ref.split("@")
            for nm in (d, th):
                if nm.split(".")[-1] not in names:
                    problems.append(f"class {cls!r} ({k[0]} `{k[1]}`): no Lean declaration named {nm} under lean/SaModel")
    return problems


def lstr(s):
    return '"' + s.replace("\\", "\\\\").replace('"', '\\"').replace("\n", "\\n") + '"'


def render_lean(repo):
    sites = scan(repo)
    doc, table = load_classes()
    problems = check(sites, table)
    if problems:
        more = f" (+{len(problems) - 12} more)" if len(problems) > 12 else ""
        raise Unrecognised("gen_arith_sites: the site inventory and translator/arith_sites.json disagree: " + "; ".join(problems[:12]) + more
                           + " — run `python3 translator/arith_sites.py --update` and classify the OPEN entries")
    kinds, classes = {}, {}
    guard_kinds, guard_also = {}, 0
    model_refs = {}
    opens = []
    for s in sites:
        cls = table[s.key()]
        head = cls.split(":")[0] if not cls.startswith("model:") else "model"
        if s.key() in GUARDS:
            gk = GUARDS[s.key()].split(" ")[0]
            guard_kinds[gk] = guard_kinds.get(gk, 0) + 1
            if head != "guard":
                guard_also += 1
        kind = s.kind.split(":")[0]
        kinds[kind] = kinds.get(kind, 0) + 1
        classes[head] = classes.get(head, 0) + 1
        if head == "model":
            ref = cls[len("model:"):].split(" ")[0]
            model_refs[ref] = model_refs.get(ref, 0) + 1
        if head == "OPEN":
            opens.append(s)
    out = []
    out.append("-- generated by translator/run.py (arith_sites.py) from serde_arrow/src/internal/**/*.rs and serde_arrow/src/*_impl.rs")
    out.append("-- (non-test code) and translator/arith_sites.json — do not edit; ./check C16 regenerates it before every build")
    out.append("namespace SaModel.Generated.ArithSites")
    out.append("")
    out.append("/-- number of places where serde_arrow's own code can unwind or overflow (operators, casts, indexing, unwrap / expect,")
    out.append("panicking std methods, panicking macros), per kind -/")
    out.append("def siteKinds : List (String × Nat) := [" + ", ".join(f"({lstr(k)}, {v})" for k, v in sorted(kinds.items())) + "]")
    out.append("")
    out.append("/-- … and per class of translator/arith_sites.json (`model`: an explicit panic / error site of the Lean model covered by a")
    out.append("theorem; `range`: cannot overflow / be out of range, with a one-line invariant; `guard`: behind a comparison of the same")
    out.append("function that the generator recognised as dominating the site; `test-only`; `OPEN`: not yet argued) -/")
    out.append("def siteClasses : List (String × Nat) := [" + ", ".join(f"({lstr(k)}, {v})" for k, v in sorted(classes.items())) + "]")
    out.append("")
    out.append(f"def siteCount : Nat := {len(sites)}")
    out.append("")
    out.append("/-- sites whose safety comparison the generator found in the sources (class `guard:` or the `guard` field of a `model:` /")
    out.append("`range:` row), per shape: `if C {fail}` before the site, `while C {..}` before it, `assert!(C)` before it, the site inside")
    out.append("`if C {..}` / `while C {..}`, the site in a match arm `pat if C =>` -/")
    out.append("def guardKinds : List (String × Nat) := [" + ", ".join(f"({lstr(k)}, {v})" for k, v in sorted(guard_kinds.items())) + "]")
    out.append("")
    out.append("/-- … of which rows of another class (`model:` mostly) that carry a recognised guard in addition -/")
    out.append(f"def guardAlso : Nat := {guard_also}")
    out.append("")
    out.append("/-- the sites nobody has argued yet: (file, function, kind, expression) -/")
    out.append("def openSites : List (String × String × String × String) := [" + ",\n  ".join(
        f"({lstr(s.file)}, {lstr(s.fn)}, {lstr(s.kind)}, {lstr(s.expr)})" for s in opens) + "]")
    out.append("")
    out.append("/-- the `model:<definition>@<theorem>` references with the number of sites each covers (the generator checked that both")
    out.append("names are declared under lean/SaModel) -/")
    out.append("def modelRefs : List (String × Nat) := [\n  " + ",\n  ".join(f"({lstr(k)}, {v})" for k, v in sorted(model_refs.items())) + "]")
    out.append("")
    out.append("end SaModel.Generated.ArithSites")
    return "\n".join(out) + "\n"


# ---------------------------------------------------------------------------------------------------------- links

READER_FILES = ("internal/deserialization/", "internal/utils/array_view_ext.rs", "internal/deserializer.rs")
# kinds of sites that unwind by themselves (an out-of-range index, a `None`, a macro that panics): the model definition a
# `model:` class names for such a site has to contain an explicit `panic` branch
PANIC_KINDS = ("index", "slice", "call:unwrap", "call:expect", "macro")


def model_links(table):
    """the `model:<definition>@<theorem>` references of arith_sites.json: ref -> list of site keys (json order)"""
    rows = {}
    for k, cls in table.items():
        if cls.startswith("model:") and CLASS_RE.match(cls):
            rows.setdefault(cls[len("model:"):].split(" ")[0], []).append(k)
    return rows


def render_links(repo):
    """Generated/ArithSiteLinks.lean: the `model:` references as data for the elaboration-time check of
    lean/SaModel/Props/C16Links.lean.  Reads translator/arith_sites.json ONLY (not the Rust sources): no rewrite of the
    crate can change this file, so — unlike the site inventory itself — the link check is an obligation, not a NOTE."""
    _doc, table = load_classes()
    for k, cls in table.items():
        if not CLASS_RE.match(cls):
            raise Unrecognised(f"translator/arith_sites.json: malformed class {cls!r} for {k[0]} `{k[1]}` `{k[3]}`")
    rows = model_links(table)
    out = []
    out.append("-- generated by translator/run.py (arith_sites.py render_links) from translator/arith_sites.json — do not edit;")
    out.append("-- ./check C16 / C17 regenerate it before every build.  Checked by lean/SaModel/Props/C16Links.lean.")
    out.append("namespace SaModel.Generated.ArithSiteLinks")
    out.append("")
    out.append("/-- one row per `model:<definition>@<theorem>` reference of translator/arith_sites.json: definition, theorem,")
    out.append("`reader` (a site of the row lies in the readers: the theorem has to NAME the definition in its statement),")
    out.append("`unwinds` (a site of the row is an index / slice / unwrap / panicking macro: the definition has to contain a `panic`")
    out.append("branch), and the sites `file | function | kind | expression | occurrence` that carry the reference -/")
    out.append("def links : List (String × String × Bool × Bool × List String) := [")
    items = []
    for ref in sorted(rows):
        d, th = ref.split("@")
        keys = rows[ref]
        reader = any(k[0].startswith(READER_FILES) for k in keys)
        unwinds = any(k[2] in PANIC_KINDS for k in keys)
        sites = ", ".join(lstr(f"{k[0]} | {k[1]} | {k[2]} | {k[3]} | #{k[4]}") for k in keys)
        items.append(f"  ({lstr(d)}, {lstr(th)}, {'true' if reader else 'false'}, {'true' if unwinds else 'false'},\n    [{sites}])")
    out.append(",\n".join(items) + "]")
    out.append("")
    out.append(f"def linkedSiteCount : Nat := {sum(len(v) for v in rows.values())}")
    out.append("")
    out.append("end SaModel.Generated.ArithSiteLinks")
    return "\n".join(out) + "\n"


GENERATORS = [("ArithSites", ["C16"], render_lean), ("ArithSiteLinks", ["C16", "C17"], render_links)]


# ---------------------------------------------------------------------------------------------------------- maintenance

def repo_root():
    link = os.path.join(ROOT, "harness", "sa_link")
    for cand in (os.environ.get("SA_REPO"), link if os.path.exists(link) else None, "/repo"):
        if cand and os.path.isdir(os.path.join(cand, "serde_arrow")):
            return cand
    raise Unrecognised("no serde_arrow checkout found (harness/sa_link, /repo)")


def dump(doc, sites, table_raw):
    """write arith_sites.json: sites in source order, grouped by file and function"""
    out_sites = {}
    for s in sites:
        row = {"kind": s.kind, "expr": s.expr}
        if s.n:
            row["n"] = s.n
        row["class"] = table_raw.get(s.key(), "OPEN")
        if s.key() in RAW_GUARD_FIELDS:
            row["guard"] = RAW_GUARD_FIELDS[s.key()]
        out_sites.setdefault(s.file, {}).setdefault(s.fn, []).append(row)
    doc = dict(doc)
    doc["sites"] = out_sites
    lines = ["{"]
    for k in doc:
        if k == "sites":
            continue
        lines.append(f" {json.dumps(k)}: {json.dumps(doc[k], ensure_ascii=False, indent=1) if isinstance(doc[k], dict) else json.dumps(doc[k], ensure_ascii=False)},".replace("\n", "\n "))
    lines.append(' "sites": {')
    files = list(out_sites)
    for fi, file in enumerate(files):
        lines.append(f"  {json.dumps(file)}: {{")
        fns = list(out_sites[file])
        for gi, fn in enumerate(fns):
            lines.append(f"   {json.dumps(fn, ensure_ascii=False)}: [")
            rows = out_sites[file][fn]
            for ri, row in enumerate(rows):
                lines.append("    " + json.dumps(row, ensure_ascii=False) + ("," if ri + 1 < len(rows) else ""))
            lines.append("   ]" + ("," if gi + 1 < len(fns) else ""))
        lines.append("  }" + ("," if fi + 1 < len(files) else ""))
    lines.append(" }")
    lines.append("}")
    with open(JSON_PATH, "w", encoding="utf-8") as f:
        f.write("\n".join(lines) + "\n")


RAW_GUARD_FIELDS = {}


def raw_table(doc):
    table = {}
    RAW_GUARD_FIELDS.clear()
    for file, fns in doc.get("sites", {}).items():
        for fn, rows in fns.items():
            for row in rows:
                key = (file, fn, row["kind"], row["expr"], row.get("n", 0))
                table[key] = row.get("class", "OPEN")
                if row.get("guard"):
                    RAW_GUARD_FIELDS[key] = row["guard"]
    return table


def main(argv):
    repo = repo_root()
    sites = scan(repo)
    if argv and argv[0] == "--update":
        doc = {"comment": "classification of the unwind / overflow sites of serde_arrow (see translator/arith_sites.py); maintained by hand, "
                          "skeleton by `arith_sites.py --update`", "reasons": {}}
        if os.path.exists(JSON_PATH):
            doc = json.load(open(JSON_PATH, encoding="utf-8"))
        old = raw_table(doc)
        dump(doc, sites, old)
        new = sum(1 for s in sites if s.key() not in old)
        gone = sum(1 for k in old if k not in {s.key() for s in sites})
        print(f"arith_sites.json: {len(sites)} sites, {new} new (OPEN), {gone} dropped")
        return 0
    if argv and argv[0] == "--list":
        pat = argv[1] if len(argv) > 1 else ""
        table = raw_table(json.load(open(JSON_PATH, encoding="utf-8"))) if os.path.exists(JSON_PATH) else {}
        for s in sites:
            line = f"{s.file}:{s.line}\t{s.fn}\t{s.kind}\t{s.expr}\t#{s.n}\t{table.get(s.key(), 'OPEN')}"
            if pat in line:
                print(line)
        return 0
    if argv and argv[0] == "--guards":
        # the dominating comparisons the recogniser finds for each site (candidates for a `guard:` class / "guard" field)
        pat = argv[1] if len(argv) > 1 else ""
        table = raw_table(json.load(open(JSON_PATH, encoding="utf-8"))) if os.path.exists(JSON_PATH) else {}
        for s in sites:
            if s.guards:
                line = f"{s.file}:{s.line}\t{s.fn}\t{s.kind}\t{s.expr}\t#{s.n}\t{table.get(s.key(), 'OPEN')[:40]}\t<= " + " | ".join(s.guards)
                if pat in line:
                    print(line)
        return 0
    try:
        render_lean(repo)
    except Unrecognised as e:
        print(e)
        return 1
    print(f"ok: {len(sites)} sites classified")
    return 0


if __name__ == "__main__":
    sys.exit(main(sys.argv[1:]))
