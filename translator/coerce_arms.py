"""
Generated/CoerceArms.lean (property C07): `coerce_primitive_type` of serde_arrow/src/internal/schema/tracer.rs as a
list of arms, plus `TracingOptions::string_type` (tracing_options.rs) as a rule.

Recognised (everything else raises Unrecognised, naming file and line):

  fn coerce_primitive_type(prev: (&DataType, bool, Option<&Strategy>), curr: (DataType, Option<Strategy>),
                           options: &TracingOptions) -> Result<(DataType, bool, Option<Strategy>)> {
      use DataType::{A, B, …};                 -- which bare identifiers are constructors
      let res = match (prev, curr) { ARM* };
      Ok(res)
  }
  ARM    ::= ( (TY, B, S) , (TY, S) ) [if ATOM (&& ATOM)*] => BODY [,]
  TY     ::= _ | binder | ALT (| ALT)*         ALT ::= Ctor | Ctor(SUB, …)     SUB ::= _ | binder
             (binders inside an ALT only when it is the only alternative; the constructor must be in the use list)
  B, S   ::= _ | binder
  ATOM   ::= options.FLAG                                   FLAG a `pub FLAG: bool` field of TracingOptions
           | <prev TY binder> == &<curr TY binder>
           | <prev S binder> == <curr S binder>.as_ref()
           | <prev tz binder>.as_ref() != <curr tz binder>.as_ref()      tz binder = 2nd argument of Timestamp(..)
  BODY   ::= TUPLE | { TUPLE } | { (let … ;)* fail!(…) }
  TUPLE  ::= ( TYRES , NLRES , STRES )
  TYRES  ::= <curr TY binder> | <prev TY binder>.clone() | <curr TY binder>.clone() | Ctor | options.string_type()
  NLRES  ::= true | false | <prev B binder>
  STRES  ::= None | <curr S binder> | <prev S binder>.cloned()

Also checked: the only call of the function (in `ensure_primitive_with_strategy`) passes
`(&tracer.item_type, tracer.nullable, tracer.strategy.as_ref()), (item_type, strategy), tracer.options.as_ref()` and
stores the three results back in that order.
"""
import os

from rust_lex import Unrecognised, tokenize, match_close, find_seq, split_top, show

CTORS = ["Null", "Boolean", "Int8", "Int16", "Int32", "Int64", "UInt8", "UInt16", "UInt32", "UInt64", "Float16",
         "Float32", "Float64", "Utf8", "LargeUtf8", "Utf8View", "Binary", "LargeBinary", "BinaryView",
         "FixedSizeBinary", "Date32", "Date64", "Timestamp", "Time32", "Time64", "Duration", "Interval", "Decimal128",
         "Struct", "List", "LargeList", "FixedSizeList", "Map", "Dictionary", "RunEndEncoded", "Union"]
CTOR_ARITY = {"FixedSizeBinary": 1, "Timestamp": 2, "Time32": 1, "Time64": 1, "Duration": 1, "Interval": 1,
              "Decimal128": 2, "Struct": 1, "List": 1, "LargeList": 1, "FixedSizeList": 2, "Map": 2, "Dictionary": 2,
              "RunEndEncoded": 2, "Union": 2}
OPT_FLAGS = ["allow_null_fields", "map_as_struct", "sequence_as_large_list", "string_as_large_utf8",
             "string_dictionary_encoding", "coerce_numbers", "allow_to_string", "guess_dates",
             "enums_without_data_as_strings"]
KEYWORDS = {"true", "false", "None", "Some", "if", "match", "let", "ref", "mut", "box"}

SIG = ("fn coerce_primitive_type ( prev : ( & DataType , bool , Option < & Strategy > ) , "
       "curr : ( DataType , Option < Strategy > ) , options : & TracingOptions , ) "
       "-> Result < ( DataType , bool , Option < Strategy > ) >").split()
CALL = ("let ( item_type , nullable , strategy ) = coerce_primitive_type ( "
        "( & tracer . item_type , tracer . nullable , tracer . strategy . as_ref ( ) ) , "
        "( item_type , strategy ) , tracer . options . as_ref ( ) , ) ? ; "
        "tracer . item_type = item_type ; tracer . strategy = strategy ; tracer . nullable = nullable ;").split()


def drop_trailing_commas(toks):
    """`, )` → `)` so that rustfmt's trailing commas do not matter"""
    out = []
    for k, t in enumerate(toks):
        if t.kind == "punct" and t.text == "," and k + 1 < len(toks) and toks[k + 1].kind == "punct" and toks[k + 1].text in (")", "]", "}"):
            continue
        out.append(t)
    return out


def expect_seq(toks, i, seq, path, what):
    seq = [s for k, s in enumerate(seq) if not (s == "," and k + 1 < len(seq) and seq[k + 1] in (")", "]", "}"))]
    for k, s in enumerate(seq):
        if i + k >= len(toks) or toks[i + k].text != s or toks[i + k].kind == "str":
            at = toks[min(i + k, len(toks) - 1)]
            raise Unrecognised(f"{path}:{at.line}: {what}: expected `{s}` (token {k} of `{' '.join(seq)}`), found `{show(toks[i + k:i + k + 6])}`")
    return i + len(seq)


def is_binder(t):
    return t.kind == "ident" and t.text not in KEYWORDS and (t.text[0].islower() or (t.text[0] == "_" and len(t.text) > 1))


class ArmParser:
    def __init__(self, path, ctors_in_scope, flags):
        self.path = path
        self.scope = ctors_in_scope
        self.flags = flags

    def bad(self, toks, what):
        line = toks[0].line if toks else "?"
        raise Unrecognised(f"{self.path}:{line}: coerce_primitive_type: {what}: `{show(toks)}`")

    # ---- patterns
    def ty_pat(self, toks, side):
        """→ (lean TyPat, binders: dict name → role)"""
        if not toks:
            self.bad(toks, f"empty {side} data-type pattern")
        if len(toks) == 1 and toks[0].text == "_":
            return ".any", {}
        if len(toks) == 1 and is_binder(toks[0]) and toks[0].text not in self.scope:
            return ".any", {toks[0].text: f"{side}_ty"}
        alts = split_top(toks, "|")
        ctors, binders = [], {}
        for alt in alts:
            if not alt or alt[0].kind != "ident":
                self.bad(alt or toks, f"{side} data-type pattern: expected a constructor")
            name = alt[0].text
            if name not in self.scope:
                self.bad(alt, f"{side} data-type pattern: `{name}` is not imported by `use DataType::{{…}}` (a bare identifier would BIND, not compare)")
            if name not in CTORS:
                self.bad(alt, f"unknown DataType constructor `{name}`")
            arity = CTOR_ARITY.get(name, 0)
            if len(alt) == 1:
                if arity:
                    self.bad(alt, f"constructor `{name}` takes {arity} argument(s)")
            else:
                if alt[1].text != "(" or match_close(alt, 1, self.path) != len(alt) - 1:
                    self.bad(alt, f"{side} data-type pattern: expected `{name}(…)`")
                subs = split_top(alt[2:-1], ",")
                if len(subs) != arity:
                    self.bad(alt, f"constructor `{name}` takes {arity} argument(s), pattern has {len(subs)}")
                for k, sub in enumerate(subs):
                    if len(sub) == 1 and sub[0].text == "_":
                        continue
                    if len(sub) == 1 and is_binder(sub[0]):
                        if len(alts) > 1:
                            self.bad(alt, "a binding inside an or-pattern is not supported")
                        if name == "Timestamp" and k == 1:
                            binders[sub[0].text] = f"{side}_tz"
                        else:
                            binders[sub[0].text] = "unused"
                        continue
                    self.bad(sub, f"argument {k} of `{name}(…)`: only `_` or a binding is supported")
            if name in ctors:
                self.bad(alt, f"constructor `{name}` listed twice in one or-pattern")
            ctors.append(name)
        return ".ctors [" + ", ".join("." + c for c in ctors) + "]", binders

    def slot(self, toks, role):
        if len(toks) == 1 and toks[0].text == "_":
            return {}
        if len(toks) == 1 and is_binder(toks[0]) and toks[0].text not in self.scope:
            return {toks[0].text: role}
        self.bad(toks, f"the {role} slot must be `_` or a binding")

    def pattern(self, toks):
        if not toks or toks[0].text != "(" or match_close(toks, 0, self.path) != len(toks) - 1:
            self.bad(toks, "pattern is not a parenthesised pair")
        parts = split_top(toks[1:-1], ",")
        if len(parts) != 2:
            self.bad(toks, "pattern is not a pair (prev, curr)")
        sides = []
        for part, n in ((parts[0], 3), (parts[1], 2)):
            if not part or part[0].text != "(" or match_close(part, 0, self.path) != len(part) - 1:
                self.bad(part or toks, "a side of the pattern is not a tuple pattern")
            comps = split_top(part[1:-1], ",")
            if len(comps) != n:
                self.bad(part, f"expected a tuple pattern with {n} components")
            sides.append(comps)
        binders = {}

        def merge(d):
            for k, v in d.items():
                if k in binders:
                    self.bad(toks, f"identifier `{k}` bound twice")
                binders[k] = v
        prev_pat, b = self.ty_pat(sides[0][0], "prev")
        merge(b)
        merge(self.slot(sides[0][1], "prev_nl"))
        merge(self.slot(sides[0][2], "prev_st"))
        curr_pat, b = self.ty_pat(sides[1][0], "curr")
        merge(b)
        merge(self.slot(sides[1][1], "curr_st"))
        return prev_pat, curr_pat, binders

    # ---- guards
    def guard(self, toks, binders):
        if any(t.text == "||" for t in toks):
            self.bad(toks, "`||` in a guard is not supported")
        atoms, cur = [], []
        for t in toks:
            if t.kind == "punct" and t.text == "&&":
                atoms.append(cur)
                cur = []
            else:
                cur.append(t)
        atoms.append(cur)
        out = []
        for a in atoms:
            tx = [t.text for t in a]
            role = lambda name: binders.get(name)
            if len(tx) == 3 and tx[0] == "options" and tx[1] == ".":
                if tx[2] not in self.flags:
                    self.bad(a, f"`options.{tx[2]}` is not a `pub {tx[2]}: bool` field of TracingOptions")
                if tx[2] not in OPT_FLAGS:
                    self.bad(a, f"option flag `{tx[2]}` is unknown to the model (SaModel/Trace/CoerceTable.lean OptFlag)")
                out.append(f".opt .{tx[2]}")
            elif len(tx) == 4 and tx[1] == "==" and tx[2] == "&" and role(tx[0]) == "prev_ty" and role(tx[3]) == "curr_ty":
                out.append(".tyEq")
            elif len(tx) == 7 and tx[1] == "==" and tx[3:] == [".", "as_ref", "(", ")"] and role(tx[0]) == "prev_st" and role(tx[2]) == "curr_st":
                out.append(".stEq")
            elif (len(tx) == 11 and tx[1:5] == [".", "as_ref", "(", ")"] and tx[5] == "!=" and tx[7:] == [".", "as_ref", "(", ")"]
                  and role(tx[0]) == "prev_tz" and role(tx[6]) == "curr_tz"):
                out.append(".tzNe")
            else:
                self.bad(a, "guard conjunct of an unknown shape")
        return out

    # ---- results
    def result(self, toks, binders):
        if toks and toks[0].text == "{" and match_close(toks, 0, self.path) == len(toks) - 1:
            inner = toks[1:-1]
            if inner and inner[0].text == "(" and match_close(inner, 0, self.path) == len(inner) - 1:
                return self.result(inner, binders)
            return self.fail_block(inner, toks)
        if not toks or toks[0].text != "(" or match_close(toks, 0, self.path) != len(toks) - 1:
            self.bad(toks, "arm body is neither a result tuple nor a block")
        comps = split_top(toks[1:-1], ",")
        if len(comps) != 3:
            self.bad(toks, "result is not a tuple of three")
        role = lambda name: binders.get(name)
        ty, nl, st = ([t.text for t in c] for c in comps)
        if len(ty) == 1 and role(ty[0]) == "curr_ty":
            ty_res = ".curr"
        elif len(ty) == 5 and ty[1:] == [".", "clone", "(", ")"] and role(ty[0]) in ("prev_ty", "curr_ty"):
            ty_res = ".prev" if role(ty[0]) == "prev_ty" else ".curr"
        elif len(ty) == 1 and ty[0] in self.scope and ty[0] in CTORS and ty[0] not in binders:
            if CTOR_ARITY.get(ty[0], 0):
                self.bad(comps[0], f"result constructor `{ty[0]}` takes arguments")
            ty_res = f"(.ctor .{ty[0]})"
        elif ty == ["options", ".", "string_type", "(", ")"]:
            ty_res = ".stringType"
        else:
            self.bad(comps[0], "result data type of an unknown shape")
        if nl in (["true"], ["false"]):
            nl_res = f"(.const {nl[0]})"
        elif len(nl) == 1 and role(nl[0]) == "prev_nl":
            nl_res = ".prev"
        else:
            self.bad(comps[1], "result nullable flag of an unknown shape")
        if st == ["None"]:
            st_res = ".none"
        elif len(st) == 1 and role(st[0]) == "curr_st":
            st_res = ".curr"
        elif len(st) == 5 and st[1:] == [".", "cloned", "(", ")"] and role(st[0]) == "prev_st":
            st_res = ".prev"
        else:
            self.bad(comps[2], "result strategy of an unknown shape")
        return f".ok {ty_res} {nl_res} {st_res}"

    def fail_block(self, inner, toks):
        stmts = split_top(inner, ";")
        if not stmts:
            self.bad(toks, "empty block as arm body")
        last = stmts[-1]
        if [t.text for t in last[:3]] != ["fail", "!", "("] or match_close(last, 2, self.path) != len(last) - 1:
            self.bad(last, "a block body must end in `fail!(…)`")
        for s in stmts[:-1]:
            if not s or s[0].text != "let":
                self.bad(s or toks, "only `let` statements may precede `fail!(…)`")
            if any(t.kind != "str" and t.text in ("return", "?", "break", "continue", "panic", "unreachable", "Ok") for t in s):
                self.bad(s, "control flow before `fail!(…)`")
        return ".fail"


def option_flags(path):
    toks = tokenize(open_text(path), path)
    i = find_seq(toks, ["pub", "struct", "TracingOptions", "{"])
    if i < 0:
        raise Unrecognised(f"{path}: `pub struct TracingOptions {{` not found")
    end = match_close(toks, i + 3, path)
    body = toks[i + 4:end]
    flags = []
    for k in range(len(body) - 3):
        if body[k].text == "pub" and body[k + 1].kind == "ident" and body[k + 2].text == ":" and body[k + 3].text == "bool":
            flags.append(body[k + 1].text)
    if not flags:
        raise Unrecognised(f"{path}: no `pub <flag>: bool` field in TracingOptions")
    return flags, toks


def string_type_rule(path, toks, flags):
    i = find_seq(toks, ["fn", "string_type", "("])
    if i < 0:
        raise Unrecognised(f"{path}: `fn string_type(` not found")
    j = expect_seq(toks, i, "fn string_type ( & self ) -> DataType {".split(), path, "TracingOptions::string_type")
    end = match_close(toks, j - 1, path)
    body = [t.text for t in toks[j:end]]
    # if self . FLAG { DataType :: A } else { DataType :: B }
    if not (len(body) == 15 and body[0:3] == ["if", "self", "."] and body[4] == "{" and body[5:7] == ["DataType", "::"]
            and body[8:11] == ["}", "else", "{"] and body[11:13] == ["DataType", "::"] and body[14] == "}"):
        raise Unrecognised(f"{path}:{toks[i].line}: string_type is not `if self.FLAG {{ DataType::A }} else {{ DataType::B }}`: `{' '.join(body[:20])}`")
    flag, a, b = body[3], body[7], body[13]
    if flag not in flags or flag not in OPT_FLAGS:
        raise Unrecognised(f"{path}:{toks[i].line}: string_type reads `self.{flag}`, not a known bool option")
    for c in (a, b):
        if c not in CTORS or CTOR_ARITY.get(c, 0):
            raise Unrecognised(f"{path}:{toks[i].line}: string_type returns `DataType::{c}`: not a constructor without arguments")
    return flag, a, b


def open_text(path):
    try:
        with open(path, encoding="utf-8") as f:
            return f.read()
    except OSError as e:
        raise Unrecognised(f"cannot read {path}: {e}")


def parse_coerce(path, flags):
    toks = drop_trailing_commas(tokenize(open_text(path), path))
    i = find_seq(toks, ["fn", "coerce_primitive_type", "("])
    if i < 0:
        raise Unrecognised(f"{path}: `fn coerce_primitive_type(` not found")
    if find_seq(toks, ["fn", "coerce_primitive_type", "("], i + 1) >= 0:
        raise Unrecognised(f"{path}: more than one `fn coerce_primitive_type`")
    j = expect_seq(toks, i, SIG, path, "signature of coerce_primitive_type")
    if toks[j].text != "{":
        raise Unrecognised(f"{path}:{toks[j].line}: expected the body of coerce_primitive_type")
    end = match_close(toks, j, path)
    body = toks[j + 1:end]
    # use DataType::{...};
    k = expect_seq(body, 0, ["use", "DataType", "::", "{"], path, "first statement of coerce_primitive_type (`use DataType::{…};`)")
    close = match_close(body, k - 1, path)
    scope = set()
    for part in split_top(body[k:close], ","):
        if len(part) != 1 or part[0].kind != "ident":
            raise Unrecognised(f"{path}:{part[0].line}: unexpected entry in `use DataType::{{…}}`: `{show(part)}`")
        scope.add(part[0].text)
    k = expect_seq(body, close + 1, [";", "let", "res", "=", "match", "(", "prev", ",", "curr", ")", "{"], path,
                   "`let res = match (prev, curr) {`")
    mclose = match_close(body, k - 1, path)
    expect_seq(body, mclose + 1, [";", "Ok", "(", "res", ")"], path, "tail of coerce_primitive_type (`; Ok(res)`)")
    if mclose + 6 != len(body):
        raise Unrecognised(f"{path}:{body[mclose + 6].line}: unexpected code after `Ok(res)`: `{show(body[mclose + 6:])}`")
    arms_toks = body[k:mclose]
    ap = ArmParser(path, scope, flags)
    arms = []
    p = 0
    while p < len(arms_toks):
        start = p
        if arms_toks[p].text != "(":
            ap.bad(arms_toks[p:], "an arm must start with a parenthesised pattern")
        pend = match_close(arms_toks, p, path)
        pat = arms_toks[p:pend + 1]
        p = pend + 1
        guard = []
        if p < len(arms_toks) and arms_toks[p].text == "if":
            q = p + 1
            depth = 0
            while q < len(arms_toks) and not (arms_toks[q].text == "=>" and depth == 0):
                if arms_toks[q].kind == "punct" and arms_toks[q].text in "([{":
                    depth += 1
                elif arms_toks[q].kind == "punct" and arms_toks[q].text in ")]}":
                    depth -= 1
                q += 1
            guard = arms_toks[p + 1:q]
            if not guard:
                ap.bad(arms_toks[start:], "empty guard")
            p = q
        if p >= len(arms_toks) or arms_toks[p].text != "=>":
            ap.bad(arms_toks[start:], "expected `=>` after the pattern")
        p += 1
        if p >= len(arms_toks) or arms_toks[p].text not in ("(", "{"):
            ap.bad(arms_toks[p:] or arms_toks[start:], "arm body is neither a tuple nor a block")
        bend = match_close(arms_toks, p, path)
        body_toks = arms_toks[p:bend + 1]
        p = bend + 1
        if p < len(arms_toks) and arms_toks[p].text == ",":
            p += 1
        prev_pat, curr_pat, binders = ap.pattern(pat)
        g = ap.guard(guard, binders) if guard else []
        res = ap.result(body_toks, binders)
        arms.append((prev_pat, curr_pat, g, res, arms_toks[start].line))
    if not arms:
        raise Unrecognised(f"{path}: the match of coerce_primitive_type has no arms")
    # the call site
    c = find_seq(toks, ["coerce_primitive_type", "("])
    calls = []
    while c >= 0:
        if not (c > 0 and toks[c - 1].text == "fn"):
            calls.append(c)
        c = find_seq(toks, ["coerce_primitive_type", "("], c + 1)
    if len(calls) != 1:
        raise Unrecognised(f"{path}: expected exactly one call of coerce_primitive_type, found {len(calls)}")
    start = calls[0] - CALL.index("coerce_primitive_type")
    if start < 0:
        raise Unrecognised(f"{path}: call of coerce_primitive_type of an unknown shape")
    expect_seq(toks, start, CALL, path, "call of coerce_primitive_type in ensure_primitive_with_strategy")
    return arms


def render(repo):
    schema = os.path.join(repo, "serde_arrow", "src", "internal", "schema")
    opt_path = os.path.join(schema, "tracing_options.rs")
    flags, opt_toks = option_flags(opt_path)
    flag, a, b = string_type_rule(opt_path, opt_toks, flags)
    arms = parse_coerce(os.path.join(schema, "tracer.rs"), flags)
    out = []
    out.append("-- generated by translator/run.py from serde_arrow/src/internal/schema/{tracer.rs, tracing_options.rs} — do not edit;")
    out.append("-- ./check regenerates this file from the repository before every build (committed so that a clean checkout builds)")
    out.append("import SaModel.Trace.CoerceTable")
    out.append("namespace SaModel.Generated.CoerceArms")
    out.append("open SaModel SaModel.Trace.CoerceTable")
    out.append("")
    out.append("/-- the arms of `match (prev, curr)` in `coerce_primitive_type`, in source order -/")
    out.append("def arms : List Arm := [")
    rows = []
    for prev_pat, curr_pat, g, res, line in arms:
        rows.append(f"  -- tracer.rs arm {len(rows) + 1}\n"
                    f"  {{ prev := {prev_pat},\n    curr := {curr_pat},\n    guard := [{', '.join(g)}],\n    res := {res} }}")
    out.append(",\n".join(rows) + "]")
    out.append("")
    out.append("/-- `TracingOptions::string_type`: `if self.<flag> { DataType::<then> } else { DataType::<else> }` -/")
    out.append(f"def stringType : StringTypeRule := {{ flag := .{flag}, thenCtor := .{a}, elseCtor := .{b} }}")
    out.append("")
    out.append("/-- the `pub <name>: bool` fields of `TracingOptions`, in source order -/")
    out.append("def optionFlags : List String := [" + ", ".join('"' + f + '"' for f in flags) + "]")
    out.append("")
    out.append("end SaModel.Generated.CoerceArms")
    return "\n".join(out) + "\n"
