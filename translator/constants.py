"""
Generated/Constants*.lean (properties C05, C08, C09, C14, C15, C16, C20): the NAMED CONSTANTS, DEFAULT VALUES, unit
factors, guards and literal texts of the crate that the hand-written model mirrors as plain literals.

One generated file per area, so that a change of one constant only concerns the properties whose model uses it:

  ConstantsTrace     schema/tracing_options.rs (struct fields, `impl Default`, the builder methods, `overwrite` key format),
                     schema/tracer.rs (`MAX_TYPE_DEPTH`, `RECURSIVE_TYPE_WARNING`, the comparison of `enforce_depth_limit`),
                     schema/from_type/mod.rs (the budget loop: initial value, exhaustion test, decrement)
  ConstantsDecimal   utils/decimal.rs (`BUFFER_SIZE_I128`, `FORMAT_BUFFER_SIZE_I128`), decimal_builder.rs /
                     decimal_deserializer.rs (which buffer size each side allocates, the `truncated` flag of the parser),
                     outer_sequence_builder.rs (the precision range of the `Decimal128` arm)
  ConstantsTemporal  chrono.rs (`get_second_value` factors, sub-second digits, `build_duration` nanoseconds per unit,
                     `format_arrow_duration_as_span` divisors), time_builder.rs, time_deserializer.rs (factors per unit, leap
                     second threshold), timestamp_builder.rs / timestamp_deserializer.rs (chrono function per unit),
                     date_builder.rs / date_deserializer.rs (`DAY_TO_VALUE_FACTOR`, `BITS`, the division used)
  ConstantsBuild     serialization/struct_builder.rs (`UNKNOWN_KEY`), utils/array_ext.rs (every `.len() <op> LITERAL`
                     comparison = the inline capacity of byte views, every `<x> > i32::MAX as usize` guard)
  ConstantsSchema    utils/dsl.rs (`MAX_TERM_DEPTH`, the comparison, the initial depth and the increment),
                     schema/strategy.rs (`STRATEGY_KEY`)
  ConstantsExt       schema/extensions/{bool8_field,fixed_shape_tensor_field,variable_shape_tensor_field}.rs (metadata keys,
                     extension names, the literal pieces of the metadata text, the `"element"` name check, child field names)
  ConstantsExtUtils  schema/extensions/utils.rs: the BODIES of `JsonString::fmt` (the arms of its `match` as data), `check_permutation`,
                     `check_dim_names` (statement lists) and `write_list` (its literal pieces), over the vocabulary of the hand-written
                     lean/SaModel/Ext/UtilsGen.lean (C20 only; not part of the umbrella `Constants`)
  ConstantsMessages  every message text of `fail!(…)` / `Error::custom(…)` / `Error::custom_from(…)` under src/internal
                     (non-test code), per file

Every definition carries, in its doc comment and in the table `provenance`, the file and the Rust text it was read from.
The translator copies; the only evaluation it performs is that of integer constant expressions (`1 + 39 + 128`,
`usize::MAX`, `i32::MAX as usize`, digit separators, type suffixes) with `usize` = 64 bit — the Rust text is kept beside
the value.  What a table means is defined by the obligations in lean/SaModel/Props/ConstGen*.lean.

A source shape that is not the one described at each parser raises Unrecognised (file:line).
"""
import os
import re

from rust_lex import Unrecognised, tokenize, match_close, find_seq, split_top, show

INTERNAL = "serde_arrow/src/internal"
UNITS = ["Second", "Millisecond", "Microsecond", "Nanosecond"]


# ---------------------------------------------------------------- Lean output helpers

def lstr(s):
    out = ['"']
    for ch in s:
        if ch == "\\":
            out.append("\\\\")
        elif ch == '"':
            out.append('\\"')
        elif ch == "\n":
            out.append("\\n")
        elif ch == "\t":
            out.append("\\t")
        elif ord(ch) < 32 or ord(ch) == 127:
            out.append("\\x%02x" % ord(ch))
        else:
            out.append(ch)
    out.append('"')
    return "".join(out)


def lbool(b):
    return "true" if b else "false"


def llist(items, per_line=False):
    if not items:
        return "[]"
    if per_line:
        return "[\n  " + ",\n  ".join(items) + "]"
    return "[" + ", ".join(items) + "]"


def lnats(ns):
    return "[" + ", ".join(str(n) for n in ns) + "]"


def doc_escape(s):
    return s.replace("-/", "- /").replace("/-", "/ -")


class Out:
    """collects definitions of one generated file together with their provenance"""

    def __init__(self, module, sources):
        self.module = module
        self.sources = sources
        self.lines = []
        self.prov = []
        self.imports = []   # modules of hand-written vocabulary the definitions use (SaModel.Ext.UtilsGen for ConstantsExtUtils)
        self.opens = []

    def define(self, name, ty, value, src, rust, note=None):
        rust1 = " ".join(rust.split())
        doc = f"`{src.rel}`: `{doc_escape(rust1)}`" + (f" — {note}" if note else "")
        self.lines.append(f"/-- {doc} -/")
        self.lines.append(f"def {name} : {ty} := {value}")
        self.lines.append("")
        self.prov.append((name, src.rel, rust1))

    def text(self):
        head = [f"-- generated by translator/run.py (constants.py) from {', '.join(self.sources)}",
                "-- — do not edit; ./check regenerates this file from the repository before every build"] \
            + [f"import {m}" for m in self.imports] \
            + [f"namespace SaModel.Generated.{self.module}"] \
            + [f"open {m}" for m in self.opens] \
            + [""]
        tail = ["/-- (definition, source file, the Rust text it was read from) for every definition above -/",
                "def provenance : List (String × String × String) := "
                + llist([f"({lstr(a)}, {lstr(b)}, {lstr(c)})" for a, b, c in self.prov], per_line=True),
                "",
                f"end SaModel.Generated.{self.module}"]
        return "\n".join(head + self.lines + tail) + "\n"


# ---------------------------------------------------------------- token helpers

class Src:
    def __init__(self, repo, rel):
        self.rel = rel
        self.path = os.path.join(repo, rel)
        try:
            with open(self.path, encoding="utf-8") as f:
                text = f.read()
        except OSError as e:
            raise Unrecognised(f"cannot read {rel}: {e}")
        self.all = tokenize(text, rel)
        self.toks = strip_tests(self.all, rel)

    def bad(self, toks, what):
        line = toks[0].line if toks else "?"
        raise Unrecognised(f"{self.rel}:{line}: {what}: `{show(toks)}`")


def is_p(t, text):
    return t.kind == "punct" and t.text == text


def is_i(t, text=None):
    return t.kind == "ident" and (text is None or t.text == text)


def rust_char(c):
    """the inside of a Rust character literal"""
    simple = {"\\": "\\\\", "'": "\\'", "\n": "\\n", "\r": "\\r", "\t": "\\t", "\0": "\\0"}
    if c in simple:
        return simple[c]
    if len(c) == 1 and (ord(c) < 32 or ord(c) == 127):
        return "\\u{%x}" % ord(c)
    return c


def rust_text(toks):
    """the tokens as Rust text (spacing normalised; only for provenance and messages)"""
    out = []
    prev = None
    for t in toks:
        s = '"' + t.text.replace("\\", "\\\\").replace('"', '\\"').replace("\n", "\\n") + '"' if t.kind == "str" else (
            "'" + rust_char(t.text) + "'" if t.kind == "char" else t.text)
        if prev is not None:
            tight_after = prev.kind == "punct" and prev.text in ("(", "[", ".", "::", "!", "&", "..", "..=")
            tight_before = t.kind == "punct" and t.text in (")", "]", ".", ",", ";", "::", "?", "(", "!", "[", "..", "..=")
            if t.kind == "punct" and t.text in ("!", "(") and prev.kind == "ident" and prev.text in ("if", "match", "return", "in", "let", "while", "as"):
                tight_before = False
            if prev.kind == "punct" and prev.text in (",", "=>", "=", "==", "!=", "<=", ">=", "+", "-", "*", "/", "%", ">", "<", "{", "&&", "||"):
                tight_before = tight_before and t.text in (")", "]", ",", ";")
            if not (tight_after or tight_before):
                out.append(" ")
        out.append(s)
        prev = t
    return "".join(out)


def strip_tests(toks, path):
    """drop every item that follows `#[cfg(test)]` or `#[test]` (through its `;` or closing brace)"""
    out, i, n = [], 0, len(toks)
    while i < n:
        t = toks[i]
        if is_p(t, "#") and i + 1 < n and is_p(toks[i + 1], "["):
            j = match_close(toks, i + 1, path)
            inner = [x.text for x in toks[i + 2:j]]
            if inner == ["test"] or inner == ["cfg", "(", "test", ")"]:
                k = j + 1
                # further attributes
                while k + 1 < n and is_p(toks[k], "#") and is_p(toks[k + 1], "["):
                    k = match_close(toks, k + 1, path) + 1
                while k < n and not (is_p(toks[k], ";") or is_p(toks[k], "{")):
                    if toks[k].kind == "punct" and toks[k].text in ("(", "["):
                        k = match_close(toks, k, path)
                    k += 1
                if k < n and is_p(toks[k], "{"):
                    k = match_close(toks, k, path)
                i = k + 1
                continue
            out.extend(toks[i:j + 1])
            i = j + 1
            continue
        out.append(t)
        i += 1
    return out


def find_all(toks, seq):
    res, i = [], 0
    while True:
        i = find_seq(toks, seq, i)
        if i < 0:
            return res
        res.append(i)
        i += 1


def find_one(src, toks, seq, what=None):
    hits = find_all(toks, seq)
    if len(hits) != 1:
        at = f":{toks[0].line}" if toks else ""
        raise Unrecognised(f"{src.rel}{at}: expected exactly one `{what or ' '.join(seq)}`, found {len(hits)}")
    return hits[0]


def block_after(src, toks, i):
    """toks[i:] … the first `{` outside parentheses / brackets → (index of `{`, index of matching `}`)"""
    j = i
    while j < len(toks) and not is_p(toks[j], "{"):
        if is_p(toks[j], ";"):
            src.bad(toks[i:], "expected a block")
        if toks[j].kind == "punct" and toks[j].text in ("(", "["):
            j = match_close(toks, j, src.rel)
        j += 1
    if j >= len(toks):
        src.bad(toks[i:], "expected a block")
    return j, match_close(toks, j, src.rel)


def fn_parts(src, toks, name):
    """unique `fn NAME` in toks → (signature tokens between the name and the body, body tokens)"""
    i = find_one(src, toks, ["fn", name], f"fn {name}")
    a, b = block_after(src, toks, i)
    return toks[i + 2:a], toks[a + 1:b]


def impl_body(src, header):
    """unique `impl … {` whose header tokens (between `impl` and `{`, generics included) are `header`"""
    toks = src.toks
    hits = []
    for i in find_all(toks, ["impl"]):
        a, b = block_after(src, toks, i)
        if [t.text for t in toks[i + 1:a]] == header:
            hits.append((a, b))
    if len(hits) != 1:
        raise Unrecognised(f"{src.rel}: expected exactly one `impl {' '.join(header)} {{`, found {len(hits)}")
    a, b = hits[0]
    return toks[a + 1:b]


def functions(src, toks):
    """every `fn NAME … { body }` in toks (nested ones too) → [(name, signature tokens, body tokens)]"""
    res = []
    for i in find_all(toks, ["fn"]):
        if i + 1 < len(toks) and is_i(toks[i + 1]):
            j = i + 2
            # a declaration without body (trait method) ends in `;`
            k = j
            decl = False
            while k < len(toks) and not is_p(toks[k], "{"):
                if is_p(toks[k], ";"):
                    decl = True
                    break
                if toks[k].kind == "punct" and toks[k].text in ("(", "["):
                    k = match_close(toks, k, src.rel)
                k += 1
            if decl or k >= len(toks):
                continue
            e = match_close(toks, k, src.rel)
            res.append((toks[i + 1].text, toks[j:k], toks[k + 1:e]))
    return res


NUM_RE = re.compile(r"([0-9][0-9_]*?)_?((?:[iu](?:8|16|32|64|128|size))?)")
LIMITS = {}
for _b in (8, 16, 32, 64, 128):
    LIMITS[f"u{_b}::MAX"] = 2 ** _b - 1
    LIMITS[f"u{_b}::MIN"] = 0
    LIMITS[f"i{_b}::MAX"] = 2 ** (_b - 1) - 1
    LIMITS[f"i{_b}::MIN"] = -2 ** (_b - 1)
LIMITS["usize::MAX"] = 2 ** 64 - 1
LIMITS["usize::MIN"] = 0
LIMITS["isize::MAX"] = 2 ** 63 - 1
LIMITS["isize::MIN"] = -2 ** 63


def num_value(src, t):
    m = NUM_RE.fullmatch(t.text)
    if t.kind != "num" or not m:
        src.bad([t], "not a decimal integer literal")
    return int(m.group(1).replace("_", ""))


def eval_int(src, toks):
    """integer constant expression: literals, `+ - *`, parentheses, `T::MAX` / `T::MIN`, `as T`"""
    if not toks:
        raise Unrecognised(f"{src.rel}: empty integer expression")
    pos = [0]

    def peek():
        return toks[pos[0]] if pos[0] < len(toks) else None

    def atom():
        t = peek()
        if t is None:
            src.bad(toks, "truncated integer expression")
        if t.kind == "num":
            pos[0] += 1
            v = num_value(src, t)
        elif is_p(t, "("):
            j = match_close(toks, pos[0], src.rel)
            v = eval_int(src, toks[pos[0] + 1:j])
            pos[0] = j + 1
        elif is_p(t, "-"):
            pos[0] += 1
            v = -atom()
        elif is_i(t) and pos[0] + 2 < len(toks) and is_p(toks[pos[0] + 1], "::") and f"{t.text}::{toks[pos[0] + 2].text}" in LIMITS:
            v = LIMITS[f"{t.text}::{toks[pos[0] + 2].text}"]
            pos[0] += 3
        else:
            src.bad(toks[pos[0]:], "not an integer constant expression the translator evaluates")
        while peek() is not None and is_i(peek(), "as"):
            if pos[0] + 1 >= len(toks) or not re.fullmatch(r"[iu](8|16|32|64|128|size)", toks[pos[0] + 1].text):
                src.bad(toks[pos[0]:], "`as` with a type the translator does not know")
            pos[0] += 2
        return v

    def term():
        v = atom()
        while peek() is not None and is_p(peek(), "*"):
            pos[0] += 1
            v *= atom()
        return v

    v = term()
    while peek() is not None and peek().kind == "punct" and peek().text in ("+", "-"):
        op = peek().text
        pos[0] += 1
        w = term()
        v = v + w if op == "+" else v - w
    if pos[0] != len(toks):
        src.bad(toks[pos[0]:], "unexpected tokens after an integer constant expression")
    return v


def const_item(src, toks, name):
    """unique `const NAME : TYPE = EXPR ;` → (type tokens, expr tokens)"""
    i = find_one(src, toks, ["const", name, ":"], f"const {name}")
    j = i + 3
    while j < len(toks) and not is_p(toks[j], "="):
        if is_p(toks[j], ";"):
            src.bad(toks[i:], "constant without a value")
        j += 1
    k = j + 1
    while k < len(toks) and not is_p(toks[k], ";"):
        if toks[k].kind == "punct" and toks[k].text in ("(", "[", "{"):
            k = match_close(toks, k, src.rel)
        k += 1
    if k >= len(toks):
        src.bad(toks[i:], "unterminated constant")
    return toks[i + 3:j], toks[j + 1:k]


def const_nat(out, src, toks, name, lean_name=None):
    ty, expr = const_item(src, toks, name)
    v = eval_int(src, expr)
    if v < 0:
        src.bad(expr, "negative constant")
    out.define(lean_name or name, "Nat", str(v), src, f"const {name}: {rust_text(ty)} = {rust_text(expr)};")
    return v


def const_str(out, src, toks, name, lean_name=None):
    ty, expr = const_item(src, toks, name)
    if len(expr) != 1 or expr[0].kind != "str":
        src.bad(expr, f"const {name} is not a single string literal")
    out.define(lean_name or name, "String", lstr(expr[0].text), src, f"const {name}: {rust_text(ty)} = {rust_text(expr)};")
    return expr[0].text


def match_arms(src, toks):
    """the tokens between the braces of a `match` → [(pattern tokens, body tokens)]"""
    arms, i, n = [], 0, len(toks)
    while i < n:
        j = i
        while j < n and not is_p(toks[j], "=>"):
            if toks[j].kind == "punct" and toks[j].text in ("(", "[", "{"):
                j = match_close(toks, j, src.rel)
            j += 1
        if j >= n:
            src.bad(toks[i:], "match arm without `=>`")
        pat = toks[i:j]
        k = j + 1
        if k < n and is_p(toks[k], "{"):
            e = match_close(toks, k, src.rel)
            body = toks[k:e + 1]
            k = e + 1
        else:
            blocklike = k < n and is_i(toks[k]) and toks[k].text in ("match", "if")
            s = k
            while k < n and not is_p(toks[k], ","):
                if toks[k].kind == "punct" and toks[k].text in ("(", "[", "{"):
                    close = match_close(toks, k, src.rel)
                    if blocklike and is_p(toks[k], "{") and not (close + 1 < n and is_i(toks[close + 1], "else")):
                        k = close + 1
                        break
                    k = close
                k += 1
            body = toks[s:k]
        if k < n and is_p(toks[k], ","):
            k += 1
        arms.append((pat, body))
        i = k
    return arms


def unit_arms(src, toks, scrutinee):
    """unique `match <scrutinee> { TimeUnit::X => BODY, … }` with exactly the four units → ([(unit, body tokens)], index after the match)"""
    seq = ["match"] + scrutinee + ["{"]
    i = find_one(src, toks, seq, " ".join(seq))
    a = i + len(seq) - 1
    b = match_close(toks, a, src.rel)
    res = []
    for pat, body in match_arms(src, toks[a + 1:b]):
        if not (len(pat) == 3 and is_i(pat[0], "TimeUnit") and is_p(pat[1], "::") and is_i(pat[2]) and pat[2].text in UNITS):
            src.bad(pat, "match arm pattern is not `TimeUnit::<unit>`")
        res.append((pat[2].text, body))
    if sorted(u for u, _ in res) != sorted(UNITS):
        src.bad(toks[i:], "the match does not have exactly one arm per time unit")
    return res, b + 1


def texts(toks):
    return [t.text for t in toks]


def expect(src, toks, pattern, what):
    """toks must match `pattern` token by token; pattern items: a string (exact text), ("num",) integer literal →
    captured value, ("str",) string literal → captured text, ("ident",) → captured"""
    caps = []
    if len(toks) != len(pattern):
        src.bad(toks, f"{what}: unexpected shape")
    for t, p in zip(toks, pattern):
        if isinstance(p, str):
            if t.text != p or t.kind == "str":
                src.bad(toks, f"{what}: unexpected shape (at `{t.text}`, expected `{p}`)")
        elif p[0] == "num":
            caps.append(num_value(src, t))
        elif p[0] == "str":
            if t.kind != "str":
                src.bad(toks, f"{what}: expected a string literal")
            caps.append(t.text)
        elif p[0] == "ident":
            if not is_i(t):
                src.bad(toks, f"{what}: expected an identifier")
            caps.append(t.text)
    return caps


def drop_trailing_comma(toks):
    return toks[:-1] if toks and is_p(toks[-1], ",") else toks


# ---------------------------------------------------------------- Trace

def render_trace(repo):
    so = Src(repo, f"{INTERNAL}/schema/tracing_options.rs")
    st = Src(repo, f"{INTERNAL}/schema/tracer.rs")
    sf = Src(repo, f"{INTERNAL}/schema/from_type/mod.rs")
    out = Out("ConstantsTrace", [so.rel, st.rel, sf.rel])

    # --- struct TracingOptions { [pub | pub(crate)] name: Type, … }
    toks = so.toks
    i = find_one(so, toks, ["struct", "TracingOptions", "{"])
    e = match_close(toks, i + 2, so.rel)
    fields = []
    for part in split_top(toks[i + 3:e], ","):
        p = list(part)
        while p and is_p(p[0], "#"):
            p = p[match_close(p, 1, so.rel) + 1:]
        if p and is_i(p[0], "pub"):
            p = p[1:]
            if p and is_p(p[0], "("):
                p = p[match_close(p, 0, so.rel) + 1:]
        if len(p) < 3 or not is_i(p[0]) or not is_p(p[1], ":"):
            so.bad(part, "struct field of an unknown shape")
        fields.append((p[0].text, rust_text(p[2:])))
    out.define("fields", "List (String × String)", llist([f"({lstr(a)}, {lstr(b)})" for a, b in fields], per_line=True),
               so, "pub struct TracingOptions { … }", "(field, type) in declaration order")

    # --- impl Default for TracingOptions { fn default() -> Self { Self { name: expr, … } } }
    body = impl_body(so, ["Default", "for", "TracingOptions"])
    _, fb = fn_parts(so, body, "default")
    if not (len(fb) >= 3 and is_i(fb[0], "Self") and is_p(fb[1], "{") and match_close(fb, 1, so.rel) == len(fb) - 1):
        so.bad(fb, "`fn default` is not a single `Self { … }` expression")
    bools, nats, others = [], [], []
    seen = []
    for part in split_top(fb[2:-1], ","):
        if len(part) < 3 or not is_i(part[0]) or not is_p(part[1], ":"):
            so.bad(part, "default initialiser of an unknown shape (`field: value` expected)")
        name, expr = part[0].text, part[2:]
        seen.append(name)
        if len(expr) == 1 and is_i(expr[0]) and expr[0].text in ("true", "false"):
            bools.append((name, expr[0].text == "true"))
        elif expr[0].kind == "num" or is_p(expr[0], "("):
            nats.append((name, eval_int(so, expr), rust_text(expr)))
        else:
            others.append((name, rust_text(expr)))
    if sorted(seen) != sorted(f for f, _ in fields):
        so.bad(fb, "the fields initialised by `default` are not the fields of the struct")
    out.define("defaultBools", "List (String × Bool)", llist([f"({lstr(n)}, {lbool(v)})" for n, v in bools], per_line=True),
               so, "impl Default for TracingOptions { fn default() -> Self { Self { … } } }", "the `bool` fields, in source order")
    out.define("defaultNats", "List (String × Nat)", llist([f"({lstr(n)}, {v})" for n, v, _ in nats]),
               so, "Self { " + ", ".join(f"{n}: {t}" for n, _, t in nats) + ", .. }", "the integer fields")
    out.define("defaultOthers", "List (String × String)", llist([f"({lstr(n)}, {lstr(t)})" for n, t in others]),
               so, "Self { " + ", ".join(f"{n}: {t}" for n, t in others) + ", .. }", "the remaining fields: (field, Rust expression)")

    # --- impl TracingOptions { … }: every `mut self` method is a setter `self.FIELD = value; self` or `overwrite`
    body = impl_body(so, ["TracingOptions"])
    setters = []
    key_format = None
    new_is_default = False
    for name, sig, fb in functions(so, body):
        a = 0
        while a < len(sig) and not is_p(sig[a], "("):
            a += 1
        if a >= len(sig):
            so.bad(sig, f"fn {name}: no parameter list")
        b = match_close(sig, a, so.rel)
        params, ret = sig[a + 1:b], sig[b + 1:]
        if name == "new":
            if texts(fb) != ["Default", "::", "default", "(", ")"]:
                so.bad(fb, "`TracingOptions::new` is not `Default::default()`")
            new_is_default = True
            continue
        if not (len(params) >= 2 and is_i(params[0], "mut") and is_i(params[1], "self")):
            continue
        if name == "overwrite":
            j = find_seq(fb, ["self", ".", "overwrites", ".", "0", ".", "insert", "(", "format", "!", "("])
            if j != 0 or fb[j + 11].kind != "str":
                so.bad(fb, "`overwrite` does not start with `self.overwrites.0.insert(format!(\"…\", …), …)`")
            key_format = fb[j + 11].text
            close = match_close(fb, j + 7, so.rel)
            args = split_top(fb[j + 8:close], ",")
            if len(args) != 2 or texts(args[0][4:]) != [",", "path", "=", "path", ".", "into", "(", ")", ")"]:
                so.bad(fb, "`overwrite`: unexpected arguments of insert / format!")
            if texts(args[1]) != ["transmute_field", "(", "field", ")", "?"]:
                so.bad(args[1], "`overwrite`: the value inserted is not `transmute_field(field)?`")
            if texts(fb[close + 1:]) != [";", "Ok", "(", "self", ")"]:
                so.bad(fb[close + 1:], "`overwrite`: unexpected statements after the insertion")
            continue
        p = split_top(params, ",")
        if not (len(p) == 2 and len(p[1]) >= 3 and is_i(p[1][0], "value") and is_p(p[1][1], ":")):
            so.bad(params, f"fn {name}: a `mut self` method that is not `(mut self, value: T)`")
        if texts(ret) != ["->", "Self"]:
            so.bad(ret, f"fn {name}: a setter that does not return `Self`")
        field = expect(so, fb, ["self", ".", ("ident",), "=", "value", ";", "self"], f"fn {name}: setter body")[0]
        setters.append((name, field, rust_text(p[1][2:])))
    if not new_is_default:
        raise Unrecognised(f"{so.rel}: `TracingOptions::new` not found")
    if key_format is None:
        raise Unrecognised(f"{so.rel}: `TracingOptions::overwrite` not found")
    out.define("setters", "List (String × String × String)",
               llist([f"({lstr(a)}, {lstr(b)}, {lstr(c)})" for a, b, c in setters], per_line=True),
               so, "pub fn NAME(mut self, value: T) -> Self { self.FIELD = value; self }", "(method, field it assigns, T); every other `mut self` method is refused")
    out.define("newIsDefault", "Bool", "true", so, "pub fn new() -> Self { Default::default() }")
    out.define("overwriteKeyFormat", "String", lstr(key_format), so,
               "self.overwrites.0.insert(format!(" + lstr(key_format) + ", path = path.into()), transmute_field(field)?); Ok(self)")

    # --- tracer.rs
    const_nat(out, st, st.toks, "MAX_TYPE_DEPTH")
    const_str(out, st, st.toks, "RECURSIVE_TYPE_WARNING")
    _, fb = fn_parts(st, st.toks, "enforce_depth_limit")
    # the comparison operator is punctuation, not an identifier: match by hand
    want_head = ["if", "self", ".", "get_depth", "(", ")"]
    want_tail = ["MAX_TYPE_DEPTH", "{", "fail", "!", "("]
    if texts(fb[:6]) != want_head or texts(fb[7:12]) != want_tail or fb[12].kind != "str" or \
            texts(fb[13:]) != [")", ";", "}", "Ok", "(", "(", ")", ")"] or fb[6].kind != "punct":
        st.bad(fb, "enforce_depth_limit is not `if self.get_depth() <op> MAX_TYPE_DEPTH { fail!(\"…\"); } Ok(())`")
    out.define("depthLimitOp", "String", lstr(fb[6].text), st, rust_text(fb[:8]) + " { fail!(" + lstr(fb[12].text) + "); }",
               "the comparison of `enforce_depth_limit`")
    out.define("depthLimitMessage", "String", lstr(fb[12].text), st, "fail!(" + lstr(fb[12].text) + ")")

    # --- from_type/mod.rs: the budget loop
    toks = sf.toks
    i = find_one(sf, toks, ["let", "mut", "budget", "="])
    j = i + 4
    while not is_p(toks[j], ";"):
        j += 1
    init = toks[i + 4:j]
    if texts(init) != ["tracer", ".", "get_options", "(", ")", ".", "from_type_budget"]:
        sf.bad(init, "the budget is not initialised from `tracer.get_options().from_type_budget`")
    out.define("budgetInit", "String", lstr(rust_text(init)), sf, "let mut budget = " + rust_text(init) + ";")
    i = find_one(sf, toks, ["if", "budget"], "if budget …")
    if not (toks[i + 2].kind == "punct" and toks[i + 3].kind == "num" and is_p(toks[i + 4], "{")):
        sf.bad(toks[i:], "the exhaustion test is not `if budget <op> LITERAL {`")
    out.define("budgetExhausted", "String × Nat", f"({lstr(toks[i + 2].text)}, {num_value(sf, toks[i + 3])})", sf, rust_text(toks[i:i + 4]),
               "the loop fails when this holds")
    i = find_one(sf, toks, ["budget", "-="], "budget -= …")
    if not (toks[i + 2].kind == "num" and is_p(toks[i + 3], ";")):
        sf.bad(toks[i:], "the decrement is not `budget -= LITERAL;`")
    out.define("budgetDecrement", "Nat", str(num_value(sf, toks[i + 2])), sf, rust_text(toks[i:i + 4]))
    for k in find_all(toks, ["budget"]):
        nxt = toks[k + 1]
        stmt_start = k > 0 and toks[k - 1].kind == "punct" and toks[k - 1].text in (";", "{", "}")
        if nxt.kind == "punct" and nxt.text in ("+=", "*=", "/=") or (stmt_start and nxt.kind == "punct" and nxt.text == "=") \
                or (nxt.kind == "punct" and nxt.text == "-=" and k != i):
            sf.bad(toks[k:], "the budget is changed in a second place")
    area_messages(out, repo, [so.rel, st.rel, sf.rel, f"{INTERNAL}/schema/from_samples/mod.rs"])
    return out.text()


# ---------------------------------------------------------------- Decimal

def render_decimal(repo):
    sd = Src(repo, f"{INTERNAL}/utils/decimal.rs")
    sb = Src(repo, f"{INTERNAL}/serialization/decimal_builder.rs")
    sr = Src(repo, f"{INTERNAL}/deserialization/decimal_deserializer.rs")
    so = Src(repo, f"{INTERNAL}/serialization/outer_sequence_builder.rs")
    out = Out("ConstantsDecimal", [sd.rel, sb.rel, sr.rel, so.rel])
    const_nat(out, sd, sd.toks, "BUFFER_SIZE_I128")
    const_nat(out, sd, sd.toks, "FORMAT_BUFFER_SIZE_I128")

    def buffer_of(src, lean_name):
        hits = find_all(src.toks, ["[", "0", ";"])
        if len(hits) != 1:
            raise Unrecognised(f"{src.rel}: expected exactly one `[0; <size>]` buffer, found {len(hits)}")
        i = hits[0]
        e = match_close(src.toks, i, src.rel)
        size = src.toks[i + 3:e]
        if not (len(size) == 3 and is_i(size[0], "decimal") and is_p(size[1], "::") and is_i(size[2])):
            src.bad(size, "the buffer size is not `decimal::<CONSTANT>`")
        out.define(lean_name, "String", lstr(size[2].text), src, rust_text(src.toks[i:e + 1]), "the constant that sizes the buffer")

    buffer_of(sb, "builderBuffer")
    buffer_of(sr, "readerBuffer")

    # DecimalParser::new(precision, scale, <truncated>) in the builder
    i = find_one(sb, sb.toks, ["DecimalParser", "::", "new", "("])
    e = match_close(sb.toks, i + 3, sb.rel)
    args = split_top(sb.toks[i + 4:e], ",")
    if len(args) != 3 or texts(args[0]) != ["precision"] or texts(args[1]) != ["scale"] or texts(args[2]) not in (["true"], ["false"]):
        sb.bad(sb.toks[i:e + 1], "not `DecimalParser::new(precision, scale, <bool literal>)`")
    out.define("builderTruncates", "Bool", args[2][0].text, sb, rust_text(sb.toks[i:e + 1]))

    # float path: 10_u128.checked_pow(precision as u32) and the comparison
    _, fb = fn_parts(sd, sd.toks, "scaled_float_to_decimal128")
    i = find_one(sd, fb, [".", "checked_pow", "("])
    if fb[i - 1].kind != "num":
        sd.bad(fb[i - 1:], "the limit is not `<literal>.checked_pow(…)`")
    m = re.fullmatch(r"([0-9_]+?)_?(u128)", fb[i - 1].text)
    if not m:
        sd.bad(fb[i - 1:], "the base of the limit is not a `u128` literal")
    out.define("floatLimitBase", "Nat", m.group(1).replace("_", ""), sd, rust_text(fb[i - 1:match_close(fb, i + 2, sd.rel) + 1]),
               "`None` (no limit) when the power exceeds u128::MAX")
    j = find_one(sd, fb, ["val", ".", "unsigned_abs", "(", ")"])
    if not (fb[j + 5].kind == "punct" and is_i(fb[j + 6], "limit")):
        sd.bad(fb[j:], "the limit test is not `val.unsigned_abs() <op> limit`")
    out.define("floatLimitOp", "String", lstr(fb[j + 5].text), sd, rust_text(fb[j:j + 7]))

    # the Decimal128 arm of build_builder
    toks = so.toks
    i = find_one(so, toks, ["T", "::", "Decimal128", "(", "precision", ",", "scale", ")", "=>", "{"])
    blk = toks[i + 10:match_close(toks, i + 9, so.rel)]
    # if !(LO..=HI).contains(precision) { fail!(in ctx, "…"); }
    head = ["if", "!", "("]
    if texts(blk[:3]) != head or blk[3].kind != "num" or blk[4].text not in ("..=", "..") or blk[5].kind != "num" or \
            texts(blk[6:12]) != [")", ".", "contains", "(", "precision", ")"] or not is_p(blk[12], "{"):
        so.bad(blk, "the Decimal128 arm does not start with `if !(LO..=HI).contains(precision) {`")
    e = match_close(blk, 12, so.rel)
    inner = blk[13:e]
    if texts(inner[:6]) != ["fail", "!", "(", "in", "ctx", ","] or inner[6].kind != "str" or texts(inner[7:]) != [")", ";"]:
        so.bad(inner, "the precision check does not `fail!(in ctx, \"…\")`")
    out.define("precisionRange", "Nat × String × Nat", f"({num_value(so, blk[3])}, {lstr(blk[4].text)}, {num_value(so, blk[5])})",
               so, rust_text(blk[:12]), "(low, range operator, high): the builder is refused outside")
    out.define("precisionMessage", "String", lstr(inner[6].text), so, rust_text(inner))
    rest = blk[e + 1:]
    if texts(rest[:8]) != ["A", "::", "Decimal128", "(", "DecimalBuilder", "::", "new", "("]:
        so.bad(rest, "the Decimal128 arm has further statements before `A::Decimal128(DecimalBuilder::new(`")
    area_messages(out, repo, [sd.rel, sb.rel, sr.rel])
    return out.text()


# ---------------------------------------------------------------- Temporal

def render_temporal(repo):
    sc = Src(repo, f"{INTERNAL}/chrono.rs")
    stb = Src(repo, f"{INTERNAL}/serialization/time_builder.rs")
    std = Src(repo, f"{INTERNAL}/deserialization/time_deserializer.rs")
    ssb = Src(repo, f"{INTERNAL}/serialization/timestamp_builder.rs")
    ssd = Src(repo, f"{INTERNAL}/deserialization/timestamp_deserializer.rs")
    sdb = Src(repo, f"{INTERNAL}/serialization/date_builder.rs")
    sdd = Src(repo, f"{INTERNAL}/deserialization/date_deserializer.rs")
    out = Out("ConstantsTemporal", [s.rel for s in (sc, stb, std, ssb, ssd, sdb, sdd)])

    # --- chrono.rs get_second_value: Ok( i128::from(get_optional_digit_value(self.F)?) [* N]* + … )
    _, fb = fn_parts(sc, sc.toks, "get_second_value")
    if not (texts(fb[:2]) == ["Ok", "("] and match_close(fb, 1, sc.rel) == len(fb) - 1):
        sc.bad(fb, "get_second_value is not a single `Ok(…)`")
    terms = []
    for term in split_top(drop_trailing_comma(fb[2:-1]), "+"):
        factors = split_top(term, "*")
        head = factors[0]
        want = ["i128", "::", "from", "(", "get_optional_digit_value", "(", "self", ".", None, ")", "?", ")"]
        if len(head) != len(want) or any(w is not None and t.text != w for t, w in zip(head, want)) or not is_i(head[8]):
            sc.bad(term, "term of get_second_value is not `i128::from(get_optional_digit_value(self.FIELD)?) * N * …`")
        ns = []
        for f in factors[1:]:
            if len(f) != 1:
                sc.bad(term, "factor of get_second_value is not an integer literal")
            ns.append(num_value(sc, f[0]))
        terms.append((head[8].text, ns))
    out.define("secondValueFactors", "List (String × List Nat)", llist([f"({lstr(f)}, {lnats(ns)})" for f, ns in terms], per_line=True),
               sc, rust_text(fb), "(span component, the factors it is multiplied with)")

    # --- get_nanosecond_value: subsecond.get(..N), 10_i64.pow(N - subsecond_len)
    _, fb = fn_parts(sc, sc.toks, "get_nanosecond_value")
    i = find_one(sc, fb, ["subsecond", ".", "get", "(", ".."])
    if fb[i + 5].kind != "num" or not is_p(fb[i + 6], ")"):
        sc.bad(fb[i:], "not `subsecond.get(..N)`")
    out.define("subsecondDigitsKept", "Nat", str(num_value(sc, fb[i + 5])), sc, rust_text(fb[i:i + 7]))
    i = find_one(sc, fb, [".", "pow", "("])
    e = match_close(fb, i + 2, sc.rel)
    arg = fb[i + 3:e]
    m = re.fullmatch(r"([0-9_]+?)_?(i64)", fb[i - 1].text) if fb[i - 1].kind == "num" else None
    if not m or len(arg) != 3 or arg[0].kind != "num" or not is_p(arg[1], "-") or not is_i(arg[2], "subsecond_len"):
        sc.bad(fb[i - 1:e + 1], "not `<base>_i64.pow(N - subsecond_len)`")
    out.define("subsecondScale", "Nat × Nat", f"({m.group(1).replace('_', '')}, {num_value(sc, arg[0])})", sc, rust_text(fb[i - 1:e + 1]),
               "(base, exponent minuend): value * base^(minuend - digits)")

    # --- build_duration
    _, fb = fn_parts(sc, sc.toks, "build_duration")
    arms, _ = unit_arms(sc, fb, ["unit"])
    i = find_one(sc, fb, ["let", "nanoseconds_per_unit", ":", "i128", "=", "match", "unit"])
    rows = []
    for u, body in arms:
        if len(body) != 1:
            sc.bad(body, "arm of nanoseconds_per_unit is not an integer literal")
        rows.append((u, num_value(sc, body[0])))
    out.define("nanosecondsPerUnit", "List (String × Nat)", llist([f"({lstr(u)}, {n})" for u, n in rows]), sc,
               "let nanoseconds_per_unit: i128 = match unit { " + ", ".join(f"TimeUnit::{u} => {rust_text(b)}" for u, b in arms) + " };")
    i = find_one(sc, fb, ["let", "unsigned_duration", "="])
    j = i
    while not is_p(fb[j], ";"):
        j += 1
    n = expect(sc, fb[i + 3:j], ["(", "second_value", "*", ("num",), "+", "i128", "::", "from", "(", "nanosecond_value", ")", ")", "/", "nanoseconds_per_unit"],
               "unsigned_duration")[0]
    out.define("nanosecondsPerSecond", "Nat", str(n), sc, rust_text(fb[i:j + 1]))
    i = find_one(sc, fb, ["if", "sign", "==", "Some", "("])
    if fb[i + 5].kind != "char" or len(fb[i + 5].text) != 1:
        sc.bad(fb[i:], "the sign test is not `sign == Some('<char>')`")
    out.define("negativeSign", "Char", "'" + fb[i + 5].text + "'", sc, rust_text(fb[i:i + 7]))

    # --- format_arrow_duration_as_span
    _, fb = fn_parts(sc, sc.toks, "format_arrow_duration_as_span")
    arms, _ = unit_arms(sc, fb, ["unit"])
    rows = []
    for u, body in arms:
        if texts(body[:3]) != ["format", "!", "("] or match_close(body, 2, sc.rel) != len(body) - 1:
            sc.bad(body, "arm of format_arrow_duration_as_span is not a single `format!(…)`")
        args = split_top(drop_trailing_comma(body[3:-1]), ",")
        if len(args[0]) != 1 or args[0][0].kind != "str":
            sc.bad(body, "format! without a literal format string")
        fmt = args[0][0].text
        nums = []
        if len(args) == 1:
            pass
        elif len(args) == 3:
            nums.append(expect(sc, args[1], ["second", "=", "value", "/", ("num",)], "second = value / N")[0])
            nums.append(expect(sc, args[2], ["subsecond", "=", "value", "%", ("num",)], "subsecond = value % N")[0])
        else:
            sc.bad(body, "format! arguments are not `second = value / N, subsecond = value % N`")
        rows.append((u, fmt, nums))
    out.define("spanFormats", "List (String × String × List Nat)", llist([f"({lstr(u)}, {lstr(f)}, {lnats(ns)})" for u, f, ns in rows], per_line=True),
               sc, "match unit { TimeUnit::X => format!(FMT, second = value / N, subsecond = value % M), … }",
               "(unit, format string, [N, M]) — no numbers for the arm that prints `value` itself")

    # --- time_builder.rs
    _, fb = fn_parts(stb, stb.toks, "serialize_str")
    arms, _ = unit_arms(stb, fb, ["self", ".", "unit"])
    find_one(stb, fb, ["let", "(", "seconds_factor", ",", "nanoseconds_factor", ")", "=", "match", "self", ".", "unit"])
    rows = []
    for u, body in arms:
        a, b = expect(stb, body, ["(", ("num",), ",", ("num",), ")"], "(seconds_factor, nanoseconds_factor)")
        rows.append((u, a, b))
    out.define("timeBuilderFactors", "List (String × Nat × Nat)", llist([f"({lstr(u)}, {a}, {b})" for u, a, b in rows]), stb,
               "let (seconds_factor, nanoseconds_factor) = match self.unit { " + ", ".join(f"TimeUnit::{u} => {rust_text(b)}" for u, b in arms) + " };")
    i = find_one(stb, fb, ["if", "time", ".", "nanosecond", "(", ")"])
    if not (fb[i + 6].kind == "punct" and fb[i + 7].kind == "num" and is_p(fb[i + 8], "{")):
        stb.bad(fb[i:], "the leap second test is not `if time.nanosecond() <op> LITERAL {`")
    out.define("leapSecondTest", "String × Nat", f"({lstr(fb[i + 6].text)}, {num_value(stb, fb[i + 7])})", stb, rust_text(fb[i:i + 8]))
    i = find_one(stb, fb, ["let", "timestamp", "="])
    j = i
    while not is_p(fb[j], ";"):
        j += 1
    expect(stb, fb[i + 3:j], ["i64", "::", "from", "(", "time", ".", "num_seconds_from_midnight", "(", ")", ")", "*", "seconds_factor", "+",
                              "i64", "::", "from", "(", "time", ".", "nanosecond", "(", ")", ")", "/", "nanoseconds_factor"], "timestamp")
    out.define("timeBuilderFormula", "String", lstr(rust_text(fb[i + 3:j])), stb, rust_text(fb[i:j + 1]))

    # --- time_deserializer.rs
    _, fb = fn_parts(std, std.toks, "get_string_repr")
    arms, _ = unit_arms(std, fb, ["self", ".", "unit"])
    find_one(std, fb, ["let", "(", "secs", ",", "nano", ")", "=", "match", "self", ".", "unit"])
    rows = []
    for u, body in arms:
        tx = texts(body)
        if tx == ["(", "ts", ",", "0", ")"]:
            rows.append((u, "(ts, 0)", []))
        elif len(body) == 9 and tx[:4] == ["(", "ts", "/", tx[3]] and tx[4:7] == [",", "ts", "%"] and tx[8] == ")":
            rows.append((u, "(ts / A, ts % B)", [num_value(std, body[3]), num_value(std, body[7])]))
        elif len(body) == 13 and tx[:3] == ["(", "ts", "/"] and tx[4:8] == [",", "(", "ts", "%"] and tx[9:11] == [")", "*"] and tx[12] == ")":
            rows.append((u, "(ts / A, (ts % B) * C)", [num_value(std, body[3]), num_value(std, body[8]), num_value(std, body[11])]))
        else:
            std.bad(body, "arm of (secs, nano) is not `(ts, 0)`, `(ts / A, ts % B)` or `(ts / A, (ts % B) * C)`")
    out.define("timeReaderArms", "List (String × String × List Nat)", llist([f"({lstr(u)}, {lstr(s)}, {lnats(ns)})" for u, s, ns in rows], per_line=True),
               std, "let (secs, nano) = match self.unit { " + ", ".join(f"TimeUnit::{u} => {rust_text(b)}" for u, b in arms) + " };",
               "(unit, shape, the literals A, B, C of the shape)")

    # --- timestamp_builder.rs / timestamp_deserializer.rs: the chrono function per unit
    _, fb = fn_parts(ssb, ssb.toks, "parse_str_to_timestamp")
    arms, _ = unit_arms(ssb, fb, ["self", ".", "unit"])
    rows = []
    for u, body in arms:
        hits = find_all(body, ["date_time", "."])
        if len(hits) != 1 or not is_i(body[hits[0] + 2]) or texts(body[hits[0] + 3:hits[0] + 5]) != ["(", ")"]:
            ssb.bad(body, "arm of parse_str_to_timestamp does not call exactly one `date_time.<method>()`")
        meth = body[hits[0] + 2].text
        tx = texts(body)
        if tx == ["Ok", "(", "date_time", ".", meth, "(", ")", ")"]:
            rows.append((u, meth, "Ok"))
        elif tx[:7] == ["match", "date_time", ".", meth, "(", ")", "{"]:
            inner = match_arms(ssb, body[7:-1])
            if len(inner) != 2 or texts(inner[0][0]) != ["Some", "(", "timestamp", ")"] or texts(inner[0][1]) != ["Ok", "(", "timestamp", ")"] \
                    or texts(inner[1][0]) != ["_"] or texts(inner[1][1][:3]) != ["fail", "!", "("]:
                ssb.bad(body, "checked arm is not `match date_time.m() { Some(timestamp) => Ok(timestamp), _ => fail!(…) }`")
            rows.append((u, meth, "Some=>Ok,_=>fail"))
        else:
            ssb.bad(body, "arm of parse_str_to_timestamp is neither `Ok(date_time.m())` nor the checked `match`")
    out.define("timestampBuilderMethods", "List (String × String × String)", llist([f"({lstr(u)}, {lstr(m)}, {lstr(k)})" for u, m, k in rows], per_line=True),
               ssb, "match self.unit { TimeUnit::X => Ok(date_time.<method>()), … }", "(unit, chrono method, how its result is used)")
    _, fb = fn_parts(ssd, ssd.toks, "get_string_repr")
    arms, _ = unit_arms(ssd, fb, ["self", ".", "unit"])
    rows = []
    for u, body in arms:
        tx = texts(body)
        if len(tx) == 8 and tx[:2] == ["DateTime", "::"] and tx[3:] == ["(", "ts", ",", "0", ")"]:
            rows.append((u, tx[2], "(ts, 0)", "Option"))
        elif len(tx) == 6 and tx[:2] == ["DateTime", "::"] and tx[3:] == ["(", "ts", ")"]:
            rows.append((u, tx[2], "(ts)", "Option"))
        elif len(tx) == 9 and tx[:4] == ["Some", "(", "DateTime", "::"] and tx[5:] == ["(", "ts", ")", ")"]:
            rows.append((u, tx[4], "(ts)", "Some"))
        else:
            ssd.bad(body, "arm is not `DateTime::f(ts, 0)`, `DateTime::f(ts)` or `Some(DateTime::f(ts))`")
    out.define("timestampReaderFunctions", "List (String × String × String × String)",
               llist([f"({lstr(u)}, {lstr(f)}, {lstr(a)}, {lstr(k)})" for u, f, a, k in rows], per_line=True),
               ssd, "match self.unit { TimeUnit::X => DateTime::<function>(ts…), … }", "(unit, chrono function, arguments, `Option` result or wrapped in `Some`)")

    # --- date_builder.rs / date_deserializer.rs
    def date_impls(src, names):
        rows = []
        for ty in ("i32", "i64"):
            body = impl_body(src, ["DatePrimitive", "for", ty])
            row = [ty]
            rust = []
            for nm, kind in names:
                t, e = const_item(src, body, nm)
                if kind == "str":
                    if len(e) != 1 or e[0].kind != "str":
                        src.bad(e, f"const {nm} is not a string literal")
                    row.append(lstr(e[0].text))
                else:
                    row.append(str(eval_int(src, e)))
                rust.append(f"const {nm}: {rust_text(t)} = {rust_text(e)};")
            rows.append(("(" + ", ".join([lstr(row[0])] + row[1:]) + ")", f"impl DatePrimitive for {ty} {{ " + " ".join(rust) + " }"))
        return rows

    rows = date_impls(sdb, [("DATA_TYPE_NAME", "str"), ("DAY_TO_VALUE_FACTOR", "nat")])
    out.define("dateBuilderImpls", "List (String × String × Nat)", llist([r for r, _ in rows]), sdb, " ".join(t for _, t in rows),
               "(integer type, DATA_TYPE_NAME, DAY_TO_VALUE_FACTOR)")
    _, fb = fn_parts(sdb, sdb.toks, "parse_str_to_days_since_epoch")
    i = find_one(sdb, fb, ["I", "::", "DAY_TO_VALUE_FACTOR"])
    if texts(fb[i - 4:i]) != ["Ok", "(", "days_since_epoch", "*"] or texts(fb[i + 3:]) != [")"]:
        sdb.bad(fb[i - 4:], "the result is not `Ok(days_since_epoch * I::DAY_TO_VALUE_FACTOR)`")
    out.define("dateBuilderFormula", "String", lstr(rust_text(fb[i - 2:i + 3])), sdb, rust_text(fb[i - 4:]))
    rows = date_impls(sdd, [("DATA_TYPE_NAME", "str"), ("DAY_TO_VALUE_FACTOR", "nat"), ("BITS", "nat")])
    out.define("dateReaderImpls", "List (String × String × Nat × Nat)", llist([r for r, _ in rows]), sdd, " ".join(t for _, t in rows),
               "(integer type, DATA_TYPE_NAME, DAY_TO_VALUE_FACTOR, BITS)")
    _, fb = fn_parts(sdd, sdd.toks, "get_string_repr")
    i = find_one(sdd, fb, ["I", "::", "DAY_TO_VALUE_FACTOR"])
    if not (texts(fb[i - 4:i - 2]) == ["ts", "."] and is_i(fb[i - 2]) and is_p(fb[i - 1], "(") and is_p(fb[i + 3], ")")):
        sdd.bad(fb[i - 4:], "the day number is not `ts.<division>(I::DAY_TO_VALUE_FACTOR)`")
    out.define("dateReaderDivision", "String", lstr(fb[i - 2].text), sdd, rust_text(fb[i - 4:i + 4]),
               "`div_euclid` rounds toward negative infinity, `/` would truncate")
    area_messages(out, repo, [s.rel for s in (sc, stb, std, ssb, ssd, sdb, sdd)]
                  + [f"{INTERNAL}/serialization/duration_builder.rs", f"{INTERNAL}/deserialization/duration_deserializer.rs"])
    return out.text()


# ---------------------------------------------------------------- Build

def render_build(repo):
    ss = Src(repo, f"{INTERNAL}/serialization/struct_builder.rs")
    sa = Src(repo, f"{INTERNAL}/utils/array_ext.rs")
    out = Out("ConstantsBuild", [ss.rel, sa.rel])
    const_nat(out, ss, ss.toks, "UNKNOWN_KEY")
    uses = []
    for name, _, fb in functions(ss, ss.toks):
        for i in find_all(fb, ["UNKNOWN_KEY"]):
            prev = fb[i - 1].text if i else ""
            uses.append((name, prev))
    out.define("unknownKeyUses", "List (String × String)", llist([f"({lstr(a)}, {lstr(b)})" for a, b in uses]), ss,
               "… UNKNOWN_KEY …", "(function, the token before the mention): `=` stores it, `!=` tests it, `(` passes it to unwrap_or")

    lens, guards = [], []
    for name, _, fb in functions(sa, sa.toks):
        for i in find_all(fb, [".", "len", "(", ")"]):
            if i + 5 < len(fb) and fb[i + 4].kind == "punct" and fb[i + 4].text in ("<", "<=", ">", ">=", "==", "!=") and fb[i + 5].kind == "num":
                # the literal must be the whole right-hand side
                nxt = fb[i + 6] if i + 6 < len(fb) else None
                if nxt is not None and not (nxt.kind == "punct" and nxt.text in ("{", ")", ";", "||", "&&", ",")):
                    sa.bad(fb[i:], "a `.len()` comparison whose right-hand side is more than a literal")
                lens.append((name, rust_text(fb[i - 1:i + 4]), fb[i + 4].text, num_value(sa, fb[i + 5])))
        for i in find_all(fb, ["i32", "::", "MAX"]):
            if texts(fb[i + 3:i + 5]) != ["as", "usize"]:
                sa.bad(fb[i:], "`i32::MAX` that is not `i32::MAX as usize`")
            if not (i >= 2 and fb[i - 1].kind == "punct" and fb[i - 1].text in ("<", "<=", ">", ">=") and
                    (is_i(fb[i - 2]) or is_p(fb[i - 2], ")"))):
                sa.bad(fb[max(0, i - 6):], "`i32::MAX as usize` that is not the right-hand side of a comparison")
            if is_i(fb[i - 2]):
                lhs = fb[i - 2].text
            else:
                # `x.len()`
                if i < 6 or texts(fb[i - 5:i - 1]) != [".", "len", "(", ")"]:
                    sa.bad(fb[max(0, i - 8):], "`i32::MAX as usize` compared with something that is neither a variable nor `x.len()`")
                lhs = rust_text(fb[i - 6:i - 1])
            guards.append((name, lhs, fb[i - 1].text))
    out.define("lenLiteralComparisons", "List (String × String × String × Nat)",
               llist([f"({lstr(a)}, {lstr(b)}, {lstr(c)}, {d})" for a, b, c, d in lens], per_line=True), sa,
               "<x>.len() <op> LITERAL", "every comparison of a length with an integer literal in array_ext.rs: (function, length, operator, literal)")
    out.define("I32_MAX", "Nat", str(LIMITS["i32::MAX"]), sa, "i32::MAX as usize", "the value of the Rust constant")
    out.define("i32MaxGuards", "List (String × String × String)",
               llist([f"({lstr(a)}, {lstr(b)}, {lstr(c)})" for a, b, c in guards], per_line=True), sa,
               "<x> <op> i32::MAX as usize", "every mention of i32::MAX in array_ext.rs: (function, left-hand side, operator)")
    # the reader of byte views: `let len = (*desc as u32) as usize; if len <= 12 { … bytes.get(4..4 + len) } else { (*desc >> 64) … (*desc >> 96) … }`
    sv = Src(repo, f"{INTERNAL}/utils/array_view_ext.rs")
    out.sources.append(sv.rel)
    toks = sv.toks
    i = find_one(sv, toks, ["if", "len"], "if len <op> LITERAL")
    if not (toks[i + 2].kind == "punct" and toks[i + 3].kind == "num" and is_p(toks[i + 4], "{")):
        sv.bad(toks[i:], "the inline test of the view reader is not `if len <op> LITERAL {`")
    a, b = i + 4, match_close(toks, i + 4, sv.rel)
    if not is_i(toks[b + 1], "else") or not is_p(toks[b + 2], "{"):
        sv.bad(toks[b:], "the inline test of the view reader has no `else` block")
    e = match_close(toks, b + 2, sv.rel)
    j = find_one(sv, toks[a:b], ["bytes", ".", "get", "("]) + a
    caps = expect(sv, toks[j + 4:match_close(toks, j + 3, sv.rel)], [("num",), "..", ("num",), "+", "len"], "bytes.get(S..S + len)")
    shifts = []
    for k in find_all(toks[b + 2:e], ["*", "desc", ">>"]):
        shifts.append(num_value(sv, toks[b + 2 + k + 3]))
    k = find_one(sv, toks, ["let", "len", "="])
    if texts(toks[k + 3:k + 12]) != ["(", "*", "desc", "as", "u32", ")", "as", "usize", ";"]:
        sv.bad(toks[k:], "the length of a view is not `(*desc as u32) as usize`")
    out.define("viewReader", "String × Nat × Nat × Nat × List Nat",
               f"({lstr(toks[i + 2].text)}, {num_value(sv, toks[i + 3])}, {caps[0]}, {caps[1]}, {lnats(shifts)})", sv,
               rust_text(toks[i:i + 4]) + " { … " + rust_text(toks[j:match_close(toks, j + 3, sv.rel) + 1]) + " } else { … *desc >> "
               + " … *desc >> ".join(str(x) for x in shifts) + " … }",
               "(inline test operator, inline capacity, start of the inline bytes twice, the shifts of buffer index and offset)")
    area_messages(out, repo, rs_files(repo, "serialization") + [sa.rel])
    return out.text()


# ---------------------------------------------------------------- Schema

def render_schema(repo):
    sd = Src(repo, f"{INTERNAL}/utils/dsl.rs")
    ss = Src(repo, f"{INTERNAL}/schema/strategy.rs")
    out = Out("ConstantsSchema", [sd.rel, ss.rel])
    const_nat(out, sd, sd.toks, "MAX_TERM_DEPTH")
    _, fb = fn_parts(sd, sd.toks, "parse_term")
    if texts(fb[:2]) != ["if", "depth"] or fb[2].kind != "punct" or texts(fb[3:8]) != ["MAX_TERM_DEPTH", "{", "fail", "!", "("] or \
            fb[8].kind != "str" or texts(fb[9:12]) != [")", ";", "}"]:
        sd.bad(fb, "parse_term does not start with `if depth <op> MAX_TERM_DEPTH { fail!(\"…\"); }`")
    out.define("termDepthOp", "String", lstr(fb[2].text), sd, rust_text(fb[:4]) + " { fail!(" + lstr(fb[8].text) + "); }")
    out.define("termDepthMessage", "String", lstr(fb[8].text), sd, "fail!(" + lstr(fb[8].text) + ")")
    calls = []
    for name, _, body in functions(sd, sd.toks):
        for i in find_all(body, ["parse_term", "("]):
            e = match_close(body, i + 1, sd.rel)
            args = split_top(body[i + 2:e], ",")
            if len(args) != 2:
                sd.bad(body[i:e + 1], "a call of parse_term without exactly two arguments")
            calls.append((name, rust_text(args[1])))
    out.define("parseTermCalls", "List (String × String)", llist([f"({lstr(a)}, {lstr(b)})" for a, b in calls]), sd,
               "parse_term(s, <depth>)", "(calling function, the depth argument) for every call")
    const_str(out, ss, ss.toks, "STRATEGY_KEY")
    area_messages(out, repo, [sd.rel, ss.rel, f"{INTERNAL}/schema/mod.rs", f"{INTERNAL}/utils/value.rs"] + rs_files(repo, "schema/serde"))
    return out.text()


# ---------------------------------------------------------------- Ext

def render_ext(repo):
    sb = Src(repo, f"{INTERNAL}/schema/extensions/bool8_field.rs")
    sf = Src(repo, f"{INTERNAL}/schema/extensions/fixed_shape_tensor_field.rs")
    sv = Src(repo, f"{INTERNAL}/schema/extensions/variable_shape_tensor_field.rs")
    out = Out("ConstantsExt", [sb.rel, sf.rel, sv.rel])

    def try_from_body(src, ty):
        body = impl_body(src, ["TryFrom", "<", "&", ty, ">", "for", "Field"])
        return fn_parts(src, body, "try_from")[1]

    def inserts(src, fb, lean_name):
        rows = []
        for i in find_all(fb, ["metadata", ".", "insert", "("]):
            e = match_close(fb, i + 3, src.rel)
            args = split_top(drop_trailing_comma(fb[i + 4:e]), ",")
            if len(args) != 2 or len(args[0]) != 5 or args[0][0].kind != "str" or texts(args[0][1:]) != [".", "into", "(", ")"]:
                src.bad(fb[i:e + 1], "not `metadata.insert(\"KEY\".into(), VALUE)`")
            v = args[1]
            if len(v) == 5 and v[0].kind == "str" and texts(v[1:]) == [".", "into", "(", ")"]:
                rows.append((args[0][0].text, "literal", v[0].text))
            elif texts(v) == ["String", "::", "new", "(", ")"]:
                rows.append((args[0][0].text, "literal", ""))
            elif texts(v) == ["value", ".", "get_ext_metadata", "(", ")", "?"]:
                rows.append((args[0][0].text, "get_ext_metadata", ""))
            else:
                src.bad(v, "metadata value is not a literal, `String::new()` or `value.get_ext_metadata()?`")
        if len(rows) != 2:
            src.bad(fb, "expected exactly two metadata.insert calls")
        out.define(lean_name, "List (String × String × String)", llist([f"({lstr(a)}, {lstr(b)}, {lstr(c)})" for a, b, c in rows], per_line=True),
                   src, "metadata.insert(KEY.into(), VALUE)", "(key, `literal` / `get_ext_metadata`, literal text)")

    def writes(src, lean_name):
        body = None
        for name, _, fb in functions(src, src.toks):
            if name == "get_ext_metadata":
                body = fb
        if body is None:
            raise Unrecognised(f"{src.rel}: fn get_ext_metadata not found")
        rows = []
        for i in find_all(body, ["write", "!", "("]):
            e = match_close(body, i + 2, src.rel)
            args = split_top(body[i + 3:e], ",")
            if len(args) != 2 or texts(args[0]) != ["&", "mut", "ext_metadata"] or len(args[1]) != 1 or args[1][0].kind != "str":
                src.bad(body[i:e + 1], "not `write!(&mut ext_metadata, \"LITERAL\")`")
            rows.append(args[1][0].text)
        for i in find_all(body, ["String", "::", "from", "("]):
            if body[i + 4].kind != "str":
                src.bad(body[i:], "String::from of something that is not a literal")
            rows.append("String::from:" + body[i + 4].text)
        out.define(lean_name, "List String", llist([lstr(r) for r in rows]), src, "write!(&mut ext_metadata, LITERAL)",
                   "the format strings written by get_ext_metadata in source order (`{{` / `}}` are the escaped braces of format strings), "
                   "then the `String::from` literals")

    def element_check(src, lean_name):
        _, fb = fn_parts(src, src.toks, "new")
        i = find_one(src, fb, ["if", "element", ".", "name"])
        if not (fb[i + 4].kind == "punct" and fb[i + 5].kind == "str" and is_p(fb[i + 6], "{") and texts(fb[i + 7:i + 10]) == ["fail", "!", "("]
                and fb[i + 10].kind == "str"):
            src.bad(fb[i:], "not `if element.name <op> \"NAME\" { fail!(\"…\") }`")
        out.define(lean_name, "String × String × String", f"({lstr(fb[i + 4].text)}, {lstr(fb[i + 5].text)}, {lstr(fb[i + 10].text)})", src,
                   rust_text(fb[i:i + 11]) + "); }", "(operator, required name, message)")

    fb = try_from_body(sb, "Bool8Field")
    inserts(sb, fb, "bool8Metadata")
    fb = try_from_body(sf, "FixedShapeTensorField")
    inserts(sf, fb, "fixedMetadata")
    writes(sf, "fixedWrites")
    element_check(sf, "fixedElementCheck")
    # wording only (SaModel/Wording/Ext.lean; no obligation of a property): tolerate a source that raises the overflow elsewhere
    hits = find_all(fb, ["fail", "!", "("])
    if len(hits) == 1 and fb[hits[0] + 3].kind == "str":
        i = hits[0]
        out.define("fixedOverflowMessage", "String", lstr(fb[i + 3].text), sf, rust_text(fb[i:i + 5]))
    else:
        out.define("fixedOverflowMessage", "String", lstr(""), sf, "(no single literal `fail!` in try_from)")
    fb = try_from_body(sv, "VariableShapeTensorField")
    inserts(sv, fb, "variableMetadata")
    writes(sv, "variableWrites")
    element_check(sv, "variableElementCheck")
    names = []
    for i in find_all(fb, ["name", ":", "String", "::", "from", "("]):
        if fb[i + 6].kind != "str":
            sv.bad(fb[i:], "child name that is not a literal")
        names.append(fb[i + 6].text)
    out.define("variableChildNames", "List String", llist([lstr(n) for n in names]), sv, "name: String::from(LITERAL)",
               "the names of the fields built by try_from, in source order")
    area_messages(out, repo, rs_files(repo, "schema/extensions"))
    return out.text()


# ---------------------------------------------------------------- ExtUtils: the bodies of schema/extensions/utils.rs

CMP = {"<": ".lt", "<=": ".le", ">": ".gt", ">=": ".ge", "==": ".eq", "!=": ".ne"}


def lchar(c):
    """a Lean `Char` literal"""
    o = ord(c)
    if c == "'":
        return "'\\''"
    if c == "\\":
        return "'\\\\'"
    if c == "\n":
        return "'\\n'"
    if c == "\t":
        return "'\\t'"
    if c == "\r":
        return "'\\r'"
    if 32 <= o < 127:
        return "'" + c + "'"
    if o <= 0xFFFF and not (0xD800 <= o <= 0xDFFF):
        return "'\\u%04x'" % o
    return f"(Char.ofNat {o})"


def int_lit(src, t):
    """an integer literal in any radix (`0x20`, `32`, `0b10_0000`, `32u32`) → value"""
    m = re.fullmatch(r"(0x[0-9a-fA-F_]+?|0o[0-7_]+?|0b[01_]+?|[0-9][0-9_]*?)_?((?:[iu](?:8|16|32|64|128|size))?)", t.text) if t.kind == "num" else None
    if not m:
        src.bad([t], "not an integer literal")
    body = m.group(1).replace("_", "")
    return int(body, 0) if body[:2] in ("0x", "0o", "0b") else int(body)


def unbrace_format(src, toks, fmt):
    """a format string without placeholders → the text it writes (`{{` ↦ `{`, `}}` ↦ `}`); a placeholder is refused"""
    out, i = [], 0
    while i < len(fmt):
        ch = fmt[i]
        if ch in "{}":
            if i + 1 < len(fmt) and fmt[i + 1] == ch:
                out.append(ch)
                i += 2
                continue
            src.bad(toks, "a format string with a placeholder where a literal text is expected")
        out.append(ch)
        i += 1
    return "".join(out)


def split_placeholder(src, toks, fmt):
    """a format string with exactly one placeholder → (text before, the placeholder without braces, text after)"""
    pieces, cur, i, spec = [], [], 0, None
    while i < len(fmt):
        ch = fmt[i]
        if ch in "{}" and i + 1 < len(fmt) and fmt[i + 1] == ch:
            cur.append(ch)
            i += 2
        elif ch == "{":
            j = fmt.find("}", i)
            if j < 0 or spec is not None:
                src.bad(toks, "a format string that does not have exactly one placeholder")
            spec = fmt[i + 1:j]
            pieces.append("".join(cur))
            cur = []
            i = j + 1
        elif ch == "}":
            src.bad(toks, "a format string with an unmatched `}`")
        else:
            cur.append(ch)
            i += 1
    if spec is None:
        src.bad(toks, "a format string that does not have exactly one placeholder")
    return pieces[0], spec, "".join(cur)


def body_statements(src, toks):
    """statements of a block: [(tokens, is the tail expression)]; `use …;` items are dropped"""
    from adapter_bodies import statements
    return [(st, tail) for st, tail in statements(toks, src.rel) if st and not is_i(st[0], "use")]


def strip_try(toks):
    return toks[:-1] if toks and is_p(toks[-1], "?") else toks


def unblock(src, toks):
    """`{ … }` → the tokens inside; anything else unchanged"""
    if toks and is_p(toks[0], "{") and match_close(toks, 0, src.rel) == len(toks) - 1:
        return toks[1:-1]
    return toks


def params_of(src, sig):
    """signature tokens → the parameter token lists"""
    a = 0
    while a < len(sig) and not is_p(sig[a], "("):
        a += 1
    if a >= len(sig):
        src.bad(sig, "no parameter list")
    return split_top(sig[a + 1:match_close(sig, a, src.rel)], ",")


def param_name(src, p):
    q = p[1:] if p and is_i(p[0], "mut") else p
    if len(q) < 3 or not is_i(q[0]) or not is_p(q[1], ":"):
        src.bad(p, "parameter that is not `name: Type`")
    return q[0].text


def literal_write(src, toks, fmtr):
    """one write of a literal text into the formatter / string `fmtr`:
    `F.write_str("…")`, `F.write_char('c')`, `F.push_str("…")`, `F.push('c')`, `write!(F, "…")` (no placeholder), each with or without `?`
    → the text, or None when the tokens are not such a write"""
    t = strip_try(toks)
    tx = texts(t)
    if len(t) == 6 and tx[0] == fmtr and tx[1] == "." and tx[2] in ("write_str", "write_char", "push_str", "push") and tx[3] == "(" and tx[5] == ")":
        want = "str" if tx[2] in ("write_str", "push_str") else "char"
        if t[4].kind != want or t[0].kind != "ident":
            return None
        return t[4].text
    if len(t) >= 6 and tx[:3] == ["write", "!", "("] and match_close(t, 2, src.rel) == len(t) - 1:
        args = split_top(drop_trailing_comma(t[3:-1]), ",")
        dest = texts(args[0]) if args else []
        if dest in ([fmtr], ["&", "mut", fmtr]) and len(args) == 2 and len(args[1]) == 1 and args[1][0].kind == "str":
            return unbrace_format(src, toks, args[1][0].text)
    return None


def literal_writes(src, toks, fmtr, what):
    """an arm body / block that only writes literal texts → their concatenation"""
    parts = []
    for st, _ in body_statements(src, unblock(src, strip_try(toks)) if is_p(toks[0], "{") else toks):
        w = literal_write(src, st, fmtr)
        if w is None:
            src.bad(st, f"{what}: not a write of a literal text into `{fmtr}`")
        parts.append(w)
    if not parts:
        src.bad(toks, f"{what}: writes nothing")
    return "".join(parts)


def as_u32(toks, var):
    """`var as u32`, `(var as u32)`, `u32::from(var)`, `var.into()` is refused → True when the tokens are the code point of `var`"""
    tx = texts(toks)
    while len(tx) >= 2 and tx[0] == "(" and tx[-1] == ")":
        tx = tx[1:-1]
    return tx in ([var, "as", "u32"], ["u32", "::", "from", "(", var, ")"])


def render_ext_utils(repo):
    su = Src(repo, f"{INTERNAL}/schema/extensions/utils.rs")
    out = Out("ConstantsExtUtils", [su.rel])
    out.imports.append("SaModel.Ext.UtilsGen")
    out.opens.append("SaModel.Ext")

    # ---- impl<…> … Display for JsonString<…> { fn fmt(&self, F: &mut …Formatter<'_>) -> …Result { … } }
    hits = []
    for i in find_all(su.toks, ["impl"]):
        a, b = block_after(su, su.toks, i)
        head = texts(su.toks[i + 1:a])
        if "Display" in head and "for" in head and "JsonString" in head[head.index("for"):]:
            hits.append(su.toks[a + 1:b])
    if len(hits) != 1:
        raise Unrecognised(f"{su.rel}: expected exactly one `impl … Display for JsonString…`, found {len(hits)}")
    sig, fb = fn_parts(su, hits[0], "fmt")
    ps = params_of(su, sig)
    if len(ps) != 2 or texts(ps[0]) != ["&", "self"]:
        su.bad(sig, "fmt is not `fn fmt(&self, f: &mut Formatter)`")
    F = param_name(su, ps[1])
    stmts = body_statements(su, fb)
    loops = [k for k, (st, _) in enumerate(stmts) if is_i(st[0], "for")]
    if len(loops) != 1:
        su.bad(fb, "JsonString::fmt does not have exactly one `for` loop")
    k = loops[0]

    def writes_of(part, what):
        res = []
        for st, tail in part:
            if tail and texts(st) == ["Ok", "(", "(", ")", ")"]:
                continue
            w = literal_write(su, st, F)
            if w is None:
                su.bad(st, f"JsonString::fmt: {what}: not a write of a literal text into `{F}`")
            res.append(w)
        return "".join(res)

    opening = writes_of(stmts[:k], "statement before the loop")
    closing = writes_of(stmts[k + 1:], "statement after the loop")
    loop = stmts[k][0]
    # for VAR in self.0.as_ref().chars() { match VAR { arms } }
    if not (len(loop) > 3 and is_i(loop[1]) and is_i(loop[2], "in")):
        su.bad(loop, "the loop is not `for <var> in <chars> { … }`")
    var = loop[1].text
    a, b = block_after(su, loop, 3)
    iter_text = rust_text(loop[3:a])
    if texts(loop[3:a]) not in (["self", ".", "0", ".", "as_ref", "(", ")", ".", "chars", "(", ")"],):
        su.bad(loop[3:a], "the loop does not run over `self.0.as_ref().chars()`")
    if b != len(loop) - 1:
        su.bad(loop[b:], "tokens after the loop body")
    inner = body_statements(su, loop[a + 1:b])
    if len(inner) != 1:
        su.bad(loop[a + 1:b], "the loop body is not a single `match`")
    m = strip_try(inner[0][0])
    if not (len(m) > 3 and is_i(m[0], "match") and texts(m[1:3]) == [var, "{"] and match_close(m, 2, su.rel) == len(m) - 1):
        su.bad(m, f"the loop body is not `match {var} {{ … }}`")
    arms = []
    rust_arms = []
    done = False
    for pat, body in match_arms(su, m[3:-1]):
        if done:
            su.bad(pat, "an arm after the catch-all arm")
        body = strip_try(body)
        rust_arms.append(rust_text(pat) + " => " + rust_text(body))
        alts = split_top(pat, "|")
        if all(len(x) == 1 and x[0].kind == "char" for x in alts):
            text = literal_writes(su, body, F, "arm of a literal character")
            for x in alts:
                arms.append(f".lit {lchar(x[0].text)} {lstr(text)}")
            continue
        if len(pat) == 1 and (is_i(pat[0]) or is_p(pat[0], "_")):
            # c => f.write_char(c)
            name = var if pat[0].text == "_" else pat[0].text
            b2 = strip_try(unblock(su, body))
            if b2 and is_p(b2[-1], ";"):
                b2 = strip_try(b2[:-1])
            if texts(b2) != [F, ".", "write_char", "(", name, ")"]:
                su.bad(body, f"the catch-all arm is not `{F}.write_char({name})`")
            arms.append(".copy")
            done = True
            continue
        if len(pat) > 2 and is_i(pat[0]) and is_i(pat[1], "if"):
            # c if (c as u32) < N => write!(f, "pre{:0Wx}post", c as u32)
            name = pat[0].text
            guard = pat[2:]
            ops = [j for j, t in enumerate(guard) if t.kind == "punct" and t.text in ("<", "<=")]
            # `u32::from(c) < N` holds no other `<`; a generic argument list would: refuse more than one
            if len(ops) != 1:
                su.bad(pat, "the guard is not `<code point of the character> < BOUND`")
            lhs, op, rhs = guard[:ops[0]], guard[ops[0]].text, guard[ops[0] + 1:]
            if as_u32(lhs, name) and len(rhs) == 1 and rhs[0].kind == "num":
                bound = int_lit(su, rhs[0])
            elif texts(lhs) == [name] and len(rhs) == 1 and rhs[0].kind == "char" and len(rhs[0].text) == 1:
                bound = ord(rhs[0].text)
            else:
                su.bad(pat, "the guard is not `(c as u32) < INTEGER`, `u32::from(c) < INTEGER` or `c < 'CHAR'`")
            if op == "<=":
                bound += 1
            b2 = strip_try(unblock(su, body))
            if b2 and is_p(b2[-1], ";"):
                b2 = strip_try(b2[:-1])
            ok = len(b2) > 4 and texts(b2[:3]) == ["write", "!", "("] and match_close(b2, 2, su.rel) == len(b2) - 1
            args = split_top(drop_trailing_comma(b2[3:-1]), ",") if ok else []
            if not (ok and len(args) == 3 and texts(args[0]) in ([F], ["&", "mut", F]) and len(args[1]) == 1 and args[1][0].kind == "str"
                    and as_u32(args[2], name)):
                su.bad(body, f"the guarded arm is not `write!({F}, \"…{{:04x}}…\", {name} as u32)`")
            pre, spec, post = split_placeholder(su, body, args[1][0].text)
            sm = re.fullmatch(r":(0?)([0-9]*)([xX])", spec)
            if not sm:
                su.bad(body, f"placeholder `{{{spec}}}` is not a hexadecimal format `{{:0Wx}}`")
            arms.append(f".hexBelow {bound} {lstr(pre)} {lbool(sm.group(1) == '0')} {int(sm.group(2) or 0)} {lbool(sm.group(3) == 'X')} {lstr(post)}")
            continue
        su.bad(pat, "match arm of JsonString::fmt that is neither a character literal, a `< BOUND` guard nor the catch-all")
    if not done:
        su.bad(m, "no catch-all arm")
    out.define("jsonStringOpen", "String", lstr(opening), su, f"{F}.write_char('\"')?; for …", "the text written before the loop of `JsonString::fmt`")
    out.define("jsonStringArms", "List EscArm", llist(arms, per_line=True), su,
               f"for {var} in {iter_text} {{ match {var} {{ " + ", ".join(rust_arms) + " } }",
               "the arms in source order (the first arm that matches is taken)")
    out.define("jsonStringClose", "String", lstr(closing), su, f"… }} {F}.write_char('\"')", "the text written after the loop")

    # ---- check_dim_names / check_permutation
    def fail_only(block, what):
        """`{ fail!(…); }`"""
        inner = body_statements(su, block)
        if len(inner) != 1 or texts(inner[0][0][:3]) != ["fail", "!", "("] or match_close(inner[0][0], 2, su.rel) != len(inner[0][0]) - 1:
            su.bad(block, f"{what}: the block is not a single `fail!(…)`")

    def if_parts(st, what):
        """`if COND { fail!(…); }` → COND tokens"""
        a, b = block_after(su, st, 1)
        if b != len(st) - 1:
            su.bad(st[b:], f"{what}: an `if` with an `else`")
        fail_only(st[a + 1:b], what)
        return st[1:a]

    def checker(fname, lean_name, with_loop):
        sig, fb = fn_parts(su, su.toks, fname)
        ps = params_of(su, sig)
        if len(ps) != 2:
            su.bad(sig, f"{fname} does not have two parameters")
        ndim, slc = param_name(su, ps[0]), param_name(su, ps[1])
        if texts(ps[0][-1:]) != ["usize"]:
            su.bad(ps[0], f"{fname}: the first parameter is not a `usize`")
        env = {"seen": None, "item": None}

        def expr(toks, what):
            tx = texts(toks)
            while len(tx) >= 2 and tx[0] == "(" and tx[-1] == ")" and match_close(toks, 0, su.rel) == len(toks) - 1:
                toks, tx = toks[1:-1], tx[1:-1]
            if tx == [ndim] and toks[0].kind == "ident":
                return ".ndim"
            if tx == [slc, ".", "len", "(", ")"]:
                return ".sliceLen"
            if env["seen"] and tx == [env["seen"], ".", "len", "(", ")"]:
                return ".seenLen"
            if env["item"] and tx in ([env["item"]], ["*", env["item"]]) and toks[-1].kind == "ident":
                return ".item" if (len(tx) == 2) == env["deref"] else su.bad(toks, f"{what}: reference / value mismatch of the loop variable")
            if len(toks) == 1 and toks[0].kind == "num":
                return f"(.lit {int_lit(su, toks[0])})"
            su.bad(toks, f"{what}: expression the translator does not know")

        def comparison(cond, what):
            ops = [j for j, t in enumerate(cond) if t.kind == "punct" and t.text in CMP]
            if len(ops) != 1:
                su.bad(cond, f"{what}: condition that is not one comparison")
            j = ops[0]
            return f"{expr(cond[:j], what)} {CMP[cond[j].text]} {expr(cond[j + 1:], what)}"

        def seen_index(toks, what):
            """`seen[E]` → E"""
            if not (env["seen"] and len(toks) >= 4 and texts(toks[:2]) == [env["seen"], "["] and match_close(toks, 1, su.rel) == len(toks) - 1):
                su.bad(toks, f"{what}: not an element `{env['seen']}[…]`")
            return expr(toks[2:-1], what)

        rows = []
        for st, tail in body_statements(su, fb):
            tx = texts(st)
            what = f"{fname}"
            if tail:
                if tx != ["Ok", "(", "(", ")", ")"]:
                    su.bad(st, f"{what}: the tail expression is not `Ok(())`")
                rows.append(".retOk")
            elif tx[0] == "if":
                rows.append(".failIf " + comparison(if_parts(st, what), what))
            elif with_loop and tx[:2] == ["let", "mut"] and len(st) > 6 and is_i(st[2]) and texts(st[3:7]) == ["=", "vec", "!", "["] \
                    and match_close(st, 6, su.rel) == len(st) - 1:
                parts = split_top(st[7:-1], ";")
                if len(parts) != 2 or texts(parts[0]) not in (["false"], ["true"]):
                    su.bad(st, f"{what}: not `let mut <v> = vec![false; <len>]`")
                if env["seen"]:
                    su.bad(st, f"{what}: a second vector")
                init = parts[0][0].text
                length = expr(parts[1], what)
                env["seen"] = st[2].text
                rows.append(f".letSeen {init} {length}")
            elif with_loop and tx[0] == "for":
                a, b = block_after(su, st, 1)
                j = [q for q in range(1, a) if is_i(st[q], "in")]
                if len(j) != 1 or b != len(st) - 1:
                    su.bad(st, f"{what}: loop of an unknown shape")
                binder, it = st[1:j[0]], texts(st[j[0] + 1:a])
                bt = texts(binder)
                if it in ([slc], [slc, ".", "iter", "(", ")"]) and ((len(bt) == 2 and bt[0] == "&") or len(bt) == 1) and is_i(binder[-1]) \
                        or (it == [slc, ".", "iter", "(", ")", ".", "copied", "(", ")"] and len(bt) == 1 and is_i(binder[0])):
                    # for &i in permutation { … }   /   for i in permutation { … *i … }   /   for i in permutation.iter().copied()
                    env["item"] = binder[-1].text
                    env["deref"] = len(bt) == 1 and "copied" not in it
                    steps = []
                    for s2, tail2 in body_statements(su, st[a + 1:b]):
                        t2 = texts(s2)
                        w2 = f"{what}: loop over `{slc}`"
                        if tail2:
                            su.bad(s2, f"{w2}: a tail expression")
                        if t2[0] == "if":
                            cond = if_parts(s2, w2)
                            if env["seen"] and texts(cond[:2]) == [env["seen"], "["]:
                                steps.append(f".failIfSeen {seen_index(cond, w2)} true")
                            elif env["seen"] and texts(cond[:3]) == ["!", env["seen"], "["]:
                                steps.append(f".failIfSeen {seen_index(cond[1:], w2)} false")
                            else:
                                steps.append(".failIf " + comparison(cond, w2))
                        elif "=" in t2 and t2[-1] in ("true", "false") and t2[-2] == "=":
                            steps.append(f".setSeen {seen_index(s2[:-2], w2)} {t2[-1]}")
                        else:
                            su.bad(s2, f"{w2}: statement of an unknown shape")
                    env["item"] = None
                    rows.append(".forSlice " + llist(steps))
                elif env["seen"] and it in ([env["seen"], ".", "into_iter", "(", ")", ".", "enumerate", "(", ")"],
                                            [env["seen"], ".", "iter", "(", ")", ".", "enumerate", "(", ")"]) \
                        and len(binder) == 5 and is_p(binder[0], "(") and is_i(binder[1]) and is_p(binder[2], ",") and is_i(binder[3]) and is_p(binder[4], ")"):
                    # for (i, seen) in seen.into_iter().enumerate() { if !seen { fail!(…) } }
                    flag = binder[3].text
                    star = ["*"] if "iter" in it[2:3] else []
                    inner = body_statements(su, st[a + 1:b])
                    if len(inner) != 1 or texts(inner[0][0][:1]) != ["if"]:
                        su.bad(st, f"{what}: the loop over `{env['seen']}` is not a single `if`")
                    cond = texts(if_parts(inner[0][0], what))
                    if cond == ["!"] + star + [flag]:
                        rows.append(".forSeen false")
                    elif cond == star + [flag]:
                        rows.append(".forSeen true")
                    else:
                        su.bad(inner[0][0], f"{what}: the test of the loop over `{env['seen']}` is not `{flag}` / `!{flag}`")
                else:
                    su.bad(st, f"{what}: loop of an unknown shape")
            else:
                su.bad(st, f"{what}: statement of an unknown shape")
        out.define(lean_name, "List PStmt", llist(rows, per_line=True), su, f"pub fn {fname}({rust_text(ps[0])}, {rust_text(ps[1])}) {{ … }}",
                   "the statements in source order; `fail!` texts are not part of the translation")

    checker("check_dim_names", "checkDimNamesBody", False)
    checker("check_permutation", "checkPermutationBody", True)

    # ---- write_list
    sig, fb = fn_parts(su, su.toks, "write_list")
    ps = params_of(su, sig)
    if len(ps) != 2:
        su.bad(sig, "write_list does not have two parameters")
    S, items = param_name(su, ps[0]), param_name(su, ps[1])
    stmts = body_statements(su, fb)
    loops = [k for k, (st, _) in enumerate(stmts) if is_i(st[0], "for")]
    if len(loops) != 1:
        su.bad(fb, "write_list does not have exactly one `for` loop")
    k = loops[0]

    def s_writes(part, what):
        res = []
        for st, tail in part:
            if tail and texts(st) == ["Ok", "(", "(", ")", ")"]:
                continue
            w = literal_write(su, st, S)
            if w is None:
                su.bad(st, f"write_list: {what}: not a write of a literal text into `{S}`")
            res.append(w)
        return "".join(res)

    opening, closing = s_writes(stmts[:k], "statement before the loop"), s_writes(stmts[k + 1:], "statement after the loop")
    loop = stmts[k][0]
    a, b = block_after(su, loop, 1)
    head = texts(loop[1:a])
    if not (len(head) == 11 and head[0] == "(" and head[2] == "," and head[4:] == [")", "in", items, ".", "enumerate", "(", ")"] and b == len(loop) - 1
            and is_i(loop[2]) and is_i(loop[4])):
        su.bad(loop, f"the loop is not `for (idx, val) in {items}.enumerate() {{ … }}`")
    idx, val = head[1], head[3]

    def item_write(block, what):
        inner = body_statements(su, block)
        if len(inner) != 1:
            su.bad(block, f"write_list: {what}: not a single write")
        t = strip_try(inner[0][0])
        if not (texts(t[:3]) == ["write", "!", "("] and match_close(t, 2, su.rel) == len(t) - 1):
            su.bad(t, f"write_list: {what}: not a `write!`")
        args = split_top(drop_trailing_comma(t[3:-1]), ",")
        if not (len(args) in (2, 3) and texts(args[0]) in ([S], ["&", "mut", S]) and len(args[1]) == 1 and args[1][0].kind == "str"):
            su.bad(t, f"write_list: {what}: not `write!({S}, \"…\")`")
        pre, spec, post = split_placeholder(su, t, args[1][0].text)
        if not ((spec == val and len(args) == 2) or (spec == "" and len(args) == 3 and texts(args[2]) == [val])):
            su.bad(t, f"write_list: {what}: the placeholder does not display `{val}`")
        return f"({lstr(pre)}, {lstr(post)})"

    inner = body_statements(su, loop[a + 1:b])
    if len(inner) != 1 or not is_i(inner[0][0][0], "if"):
        su.bad(loop, "the loop body of write_list is not a single `if … else …`")
    st = inner[0][0]
    a1, b1 = block_after(su, st, 1)
    if not (b1 + 2 < len(st) and is_i(st[b1 + 1], "else") and is_p(st[b1 + 2], "{") and match_close(st, b1 + 2, su.rel) == len(st) - 1):
        su.bad(st, "the loop body of write_list is not `if … { … } else { … }`")
    cond = st[1:a1]
    if not (len(cond) == 3 and texts(cond[:1]) == [idx] and cond[1].kind == "punct" and cond[1].text in CMP and cond[2].kind == "num"):
        su.bad(cond, f"the test is not `{idx} <op> INTEGER`")
    out.define("writeListBody", "WriteListBody",
               "{ opening := %s, op := %s, bound := %d, thenFmt := %s, elseFmt := %s, closing := %s }" % (
                   lstr(opening), CMP[cond[1].text], int_lit(su, cond[2]), item_write(st[a1 + 1:b1], "then branch"),
                   item_write(st[b1 + 3:-1], "else branch"), lstr(closing)),
               su, rust_text(fb), "the item formats as (text before the item, text after it)")
    return out.text()


# ---------------------------------------------------------------- Messages

def collect_messages(src):
    """the literal (format) text of every `fail!(…)`, `Error::custom(…)`, `Error::custom_from(…)` of one file"""
    rel = src.rel
    toks = src.toks
    n = len(toks)
    rows = []
    for i in range(n - 2):
        opener = None
        if is_i(toks[i], "fail") and is_p(toks[i + 1], "!") and is_p(toks[i + 2], "("):
            opener = i + 2
        elif is_i(toks[i]) and toks[i].text in ("custom", "custom_from") and i >= 2 and is_p(toks[i - 1], "::") and is_i(toks[i - 2], "Error") \
                and is_p(toks[i + 1], "("):
            opener = i + 1
        if opener is None:
            continue
        e = match_close(toks, opener, rel)
        inner = toks[opener + 1:e]
        # fail!(in ctx, …)
        if len(inner) >= 3 and is_i(inner[0], "in") and is_p(inner[2], ","):
            inner = inner[3:]
        # format!(…) / concat!(…) wrappers
        while len(inner) >= 3 and is_i(inner[0]) and inner[0].text in ("format", "concat") and is_p(inner[1], "!") and is_p(inner[2], "("):
            if inner[0].text == "concat":
                c = match_close(inner, 2, rel)
                parts = split_top(drop_trailing_comma(inner[3:c]), ",")
                if all(len(p) == 1 and p[0].kind == "str" for p in parts):
                    rows.append("".join(p[0].text for p in parts))
                inner = []
                break
            inner = inner[3:]
        if inner and inner[0].kind == "str":
            rows.append(inner[0].text)
    return rows


def area_messages(out, repo, rels):
    """`messages` of an area file: the message texts of the listed source files (duplicates dropped, first occurrence kept)"""
    seen, rows = set(), []
    for rel in rels:
        for t in collect_messages(Src(repo, rel)):
            if t not in seen:
                seen.add(t)
                rows.append(t)
    out.lines.append("/-- the literal message (format) text of every `fail!(…)`, `Error::custom(…)`, `Error::custom_from(…)` in")
    out.lines.append(", ".join(f"`{r[len(INTERNAL) + 1:]}`" for r in rels) + " (each text once) -/")
    out.lines.append("def messages : List String := " + llist([lstr(t) for t in rows], per_line=True))
    out.lines.append("")
    out.prov.append(("messages", ", ".join(rels), "fail!(\"…\") | Error::custom(\"…\") | Error::custom_from(\"…\", …)"))


def rs_files(repo, sub):
    base = os.path.join(repo, INTERNAL, sub)
    if not os.path.isdir(base):
        raise Unrecognised(f"{INTERNAL}/{sub} not found")
    files = []
    for d, dirs, names in os.walk(base):
        dirs.sort()
        for n in sorted(names):
            if n.endswith(".rs"):
                rel = os.path.relpath(os.path.join(d, n), repo)
                parts = rel.split(os.sep)
                if any(p in ("test", "tests", "testing") or p.startswith("test_") for p in parts) or n in ("test.rs", "tests.rs"):
                    continue
                files.append(rel)
    return files


def render_messages(repo):
    rows = []
    for rel in rs_files(repo, ""):
        for t in collect_messages(Src(repo, rel)):
            rows.append((rel, t))
    out = Out("ConstantsMessages", [f"{INTERNAL}/**/*.rs (non-test code)"])
    out.lines.append("/-- the literal message (format) text of every `fail!(…)`, `Error::custom(…)` and `Error::custom_from(…)` whose first")
    out.lines.append("argument is a string literal, `format!(LITERAL, …)` or `concat!(LITERAL, …)`: (file, text), files in path order -/")
    out.lines.append("def messages : List (String × String) := " + llist([f"({lstr(a)}, {lstr(b)})" for a, b in rows], per_line=True))
    out.lines.append("")
    out.lines.append("/-- the texts of the readers (`deserialization/`, `deserializer.rs`, `utils/array_view_ext.rs`, `utils/array_ext.rs`), each once -/")
    seen, rd = set(), []
    for a, b in rows:
        if ("/deserialization/" in a or a.endswith("/deserializer.rs") or a.endswith("/array_view_ext.rs") or a.endswith("/array_ext.rs")) and b not in seen:
            seen.add(b)
            rd.append(b)
    out.lines.append("def readerTexts : List String := " + llist([lstr(t) for t in rd], per_line=True))
    out.lines.append("")
    out.prov.append(("messages", f"{INTERNAL}/**/*.rs", "fail!(\"…\") | Error::custom(\"…\") | Error::custom_from(\"…\", …)"))
    return out.text()


def render_umbrella(repo):
    mods = ["Trace", "Decimal", "Temporal", "Build", "Schema", "Ext", "Messages"]
    return ("-- generated by translator/run.py (constants.py) — do not edit\n"
            "-- the constants, defaults, unit factors and literal texts of the crate, one module per area (see notes/translator.md)\n"
            + "".join(f"import SaModel.Generated.Constants{m}\n" for m in mods))


# (generated module, properties whose obligations read it, renderer)
GENERATORS = [
    ("ConstantsTrace", ["C08", "C16"], render_trace),
    ("ConstantsDecimal", ["C15", "C05", "C16"], render_decimal),
    ("ConstantsTemporal", ["C14", "C05", "C16"], render_temporal),
    ("ConstantsBuild", ["C05", "C16"], render_build),
    ("ConstantsSchema", ["C09", "C16"], render_schema),
    ("ConstantsExt", ["C20", "C16"], render_ext),
    ("ConstantsExtUtils", ["C20"], render_ext_utils),
    ("ConstantsMessages", ["C05", "C08", "C09", "C14", "C15", "C16", "C20"], render_messages),
    ("Constants", [], render_umbrella),
]
