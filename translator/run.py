#!/usr/bin/env python3
"""
translator: regenerate lean/SaModel/Generated/*.lean from the serde_arrow sources.

Run by ./check before every build.  Reads the repository through the harness link (harness/sa_link, falling
back to /repo), writes a file only when its content changes, and exits non-zero with a message naming the
source shape it did not recognise (the check then reports the proof obligation as no longer checked).

Generated/ArrowVersions.lean (property C19): the arrow / arrow2 versions as they appear in
  * serde_arrow/Cargo.toml   [features] arrow-N = [...], the optional dependencies they name, the check-cfg list
  * serde_arrow/build.rs     the `#[cfg(feature = "arrow-N")] N` tables, how one entry is selected, the cfg
                             flags printed for the selected version and the version thresholds
  * serde_arrow/src/lib.rs   `#[cfg(has_arrow_N)] build_arrow_crate!(arrow_array_N, arrow_schema_N);`,
                             `#[cfg(has_arrow2_0_N)] pub use arrow2_0_N as arrow2;`
The consistency of these lists is a `decide` obligation in lean/SaModel/Props/C19.lean.

Generated/AdapterBodies.lean (property C19): see adapter_bodies.py — the bodies of the `ArrayBuilder` finishers and the
`Deserializer` constructors of marrow_impl.rs / arrow_impl.rs / arrow2_impl.rs as statement lists, every `self.schema`.
Obligations: lean/SaModel/Props/C19Gen.lean.
Generated/CoerceArms.lean (property C07): see coerce_arms.py — the arms of `coerce_primitive_type` (tracer.rs) as data,
`TracingOptions::string_type`.  Obligations: lean/SaModel/Props/C07Gen.lean.
Generated/TypeNames.lean (property C09): see type_names.py — the name tables of `build_data_type`,
`PrettyFieldDataType`, `is_data_type_with_children`, `Term::as_option`, `Strategy` Display / FromStr.  Obligations:
lean/SaModel/Props/C09Gen.lean.
Generated/Constants*.lean (C05, C08, C09, C14, C15, C16, C20): see constants.py — named constants, defaults, unit factors, guards and
literal texts the model mirrors.  Obligations: lean/SaModel/Props/ConstGen*.lean.
Generated/ArithSites.lean (C16): see arith_sites.py — every operator, cast, index, unwrap / expect, panicking std method and
panicking macro of the non-test sources, each classified in translator/arith_sites.json (`model:` / `range:` / `test-only` /
`OPEN`); an unclassified or vanished site is refused.  Obligation: lean/SaModel/Props/C16Gen.lean (`gen_arith_sites`).
Generated/Takes.lean (C10): see takes.py — for every builder struct, every `impl ArrayExt` and the top-level `ArrayBuilder`: how `new`
initialises each field and what the reset method (`take` / `take_self` / `take_records` / `build_arrays`) leaves in it.  Obligation:
lean/SaModel/Props/C10Gen.lean (`gen_takes`: what `take` leaves is what `new` creates; `gen_takes_model`: the kinds are those of the
model's `takeRest`).
What each parser recognises and refuses: notes/translator.md.
"""
import os
import re
import sys
import tables2   # Generated/{Annotations,AcceptMatrix,ReaderMatrix}.lean (C18, C05, C02): translator/tables2.py

sys.path.insert(0, os.path.dirname(os.path.abspath(__file__)))
from rust_lex import Unrecognised  # noqa: E402
import coerce_arms  # noqa: E402
import type_names  # noqa: E402
import adapter_bodies  # noqa: E402
import constants  # noqa: E402
import takes  # noqa: E402  Generated/Takes.lean (C10; C01 C03 C16 C18): new / take of every builder, field by field (translator/takes.py)
import arith_sites  # noqa: E402  Generated/ArithSites.lean (C16): the inventory of unwind / overflow sites vs translator/arith_sites.json

ROOT = os.path.dirname(os.path.dirname(os.path.abspath(__file__)))


def repo_root():
    link = os.path.join(ROOT, "harness", "sa_link")
    for cand in (os.environ.get("SA_REPO"), link if os.path.exists(link) else None, "/repo"):
        if cand and os.path.isdir(os.path.join(cand, "serde_arrow")):
            return cand
    raise Unrecognised("no serde_arrow checkout found (harness/sa_link, /repo)")


def read(path):
    try:
        with open(path, encoding="utf-8") as f:
            return f.read()
    except OSError as e:
        raise Unrecognised(f"cannot read {path}: {e}")


def write_if_changed(path, text):
    if os.path.exists(path) and open(path, encoding="utf-8").read() == text:
        return False
    os.makedirs(os.path.dirname(path), exist_ok=True)
    tmp = path + ".tmp"
    with open(tmp, "w", encoding="utf-8") as f:
        f.write(text)
    os.replace(tmp, path)
    return True


def strip_rust_comments(src):
    """drop // comments (the sources of interest hold no string literal with `//` outside println!/doc text)"""
    out = []
    for line in src.splitlines():
        s = line.lstrip()
        if s.startswith("//"):
            out.append("")
            continue
        out.append(line)
    return "\n".join(out)


# ---------------------------------------------------------------- Cargo.toml

def parse_cargo(path):
    try:
        import tomllib
    except ImportError:
        raise Unrecognised("python3 >= 3.11 (tomllib) is needed to read Cargo.toml")
    try:
        with open(path, "rb") as f:
            doc = tomllib.load(f)
    except Exception as e:
        raise Unrecognised(f"{path}: not valid TOML: {e}")
    feats = doc.get("features")
    deps = doc.get("dependencies")
    if not isinstance(feats, dict) or not isinstance(deps, dict):
        raise Unrecognised(f"{path}: no [features] / [dependencies] table")
    arrow_feats, arrow2_feats = [], []
    for name, members in feats.items():
        if name == "default":
            continue
        m = re.fullmatch(r"arrow-(\d+)", name)
        m2 = re.fullmatch(r"arrow2-0-(\d+)", name)
        if not isinstance(members, list) or not all(isinstance(x, str) for x in members):
            raise Unrecognised(f"{path}: feature {name} is not a list of strings")
        if m:
            arrow_feats.append((int(m.group(1)), members))
        elif m2:
            arrow2_feats.append((int(m2.group(1)), members))
        else:
            raise Unrecognised(f"{path}: feature `{name}` is neither arrow-N nor arrow2-0-N (a new kind of back end feature?)")
    arrow_deps, arrow2_deps = [], []
    for name, spec in deps.items():
        m = re.fullmatch(r"arrow-(array|schema)-(\d+)", name)
        m2 = re.fullmatch(r"arrow2-0-(\d+)", name)
        if not (m or m2):
            if name.startswith("arrow"):
                raise Unrecognised(f"{path}: dependency `{name}` looks like an arrow dependency of an unknown shape")
            continue
        if not isinstance(spec, dict) or not isinstance(spec.get("package"), str) or not isinstance(spec.get("version"), str):
            raise Unrecognised(f"{path}: dependency {name} is not of the form {{ package = .., version = .., optional = true }}")
        row = (name, int((m or m2).group(2 if m else 1)), spec["package"], spec["version"], bool(spec.get("optional", False)))
        (arrow_deps if m else arrow2_deps).append(row)
    lints = doc.get("lints", {}).get("rust", {}).get("unexpected_cfgs", {}).get("check-cfg")
    if not isinstance(lints, list):
        raise Unrecognised(f"{path}: no [lints.rust.unexpected_cfgs] check-cfg list")
    check_cfg = []
    for entry in lints:
        m = re.fullmatch(r"cfg\(has_arrow_(\d+)\)", entry)
        if m:
            check_cfg.append(int(m.group(1)))
    return arrow_feats, arrow2_feats, arrow_deps, arrow2_deps, check_cfg


# ---------------------------------------------------------------- build.rs

TABLE_RE = r"let\s+%s\s*:\s*Option<usize>\s*=\s*\[(?P<body>.*?)\]\s*\.into_iter\(\)\s*\.(?P<sel>\w+)\(\)\s*;"
ENTRY_RE = re.compile(r'#\[cfg\(feature\s*=\s*"(?P<feat>[^"]+)"\)\]\s*(?P<val>\d+)\s*,')


def parse_table(src, var, feat_re, path):
    m = re.search(TABLE_RE % re.escape(var), src, flags=re.S)
    if not m:
        raise Unrecognised(f"{path}: `let {var}: Option<usize> = [ #[cfg(feature = ..)] N, .. ].into_iter().<select>();` not found")
    body = m.group("body")
    rows = []
    pos = 0
    for e in ENTRY_RE.finditer(body):
        if body[pos:e.start()].strip():
            raise Unrecognised(f"{path}: unexpected text in the {var} table: {body[pos:e.start()].strip()[:80]!r}")
        pos = e.end()
        fm = re.fullmatch(feat_re, e.group("feat"))
        if not fm:
            raise Unrecognised(f"{path}: feature {e.group('feat')!r} in the {var} table does not match {feat_re}")
        rows.append((int(fm.group(1)), int(e.group("val"))))
    if body[pos:].strip():
        raise Unrecognised(f"{path}: unexpected text in the {var} table: {body[pos:].strip()[:80]!r}")
    if not rows:
        raise Unrecognised(f"{path}: the {var} table is empty")
    return rows, m.group("sel"), m.end()


def parse_build_rs(path):
    src = strip_rust_comments(read(path))
    a2, sel2, end2 = parse_table(src, "max_arrow2_version", r"arrow2-0-(\d+)", path)
    a, sel, end = parse_table(src, "max_arrow_version", r"arrow-(\d+)", path)

    def emitted(var_end, what):
        # the `if let Some(version) = <var> { ... }` block that follows the table
        m = re.compile(r"if\s+let\s+Some\(version\)\s*=\s*%s\s*\{" % what).search(src, var_end)
        if not m:
            raise Unrecognised(f"{path}: `if let Some(version) = {what} {{` not found")
        depth, i = 1, m.end()
        while i < len(src) and depth:
            depth += {"{": 1, "}": -1}.get(src[i], 0)
            i += 1
        if depth:
            raise Unrecognised(f"{path}: unbalanced block after `if let Some(version) = {what}`")
        return src[m.end():i - 1]

    blk2 = emitted(end2, "max_arrow2_version")
    blk = emitted(end, "max_arrow_version")
    cfg_re = re.compile(r'println!\(\s*"cargo:rustc-cfg=([^"]+)"\s*\)\s*;')
    thr_re = re.compile(r'if\s+version\s*(>=|>|==|<=|<)\s*(\d+)\s*\{\s*println!\(\s*"cargo:rustc-cfg=([^"]+)"\s*\)\s*;\s*\}', flags=re.S)
    thresholds = [(m.group(3), m.group(1), int(m.group(2))) for m in thr_re.finditer(blk)]
    plain = cfg_re.findall(thr_re.sub("", blk))
    plain2 = cfg_re.findall(blk2)
    rest = cfg_re.sub("", thr_re.sub("", blk)).strip()
    rest2 = cfg_re.sub("", blk2).strip()
    if rest or rest2:
        raise Unrecognised(f"{path}: unrecognised statements after the version selection: {(rest or rest2)[:120]!r}")
    return a, sel, plain, thresholds, a2, sel2, plain2


# ---------------------------------------------------------------- lib.rs

def parse_lib_rs(path):
    src = strip_rust_comments(read(path))
    macro_rows = []
    for m in re.finditer(r"^.*build_arrow_crate!\s*\(.*$", src, flags=re.M):
        line = m.group(0).strip()
        lm = re.fullmatch(r"#\[cfg\(has_arrow_(\d+)\)\]\s*build_arrow_crate!\(\s*arrow_array_(\d+)\s*,\s*arrow_schema_(\d+)\s*\)\s*;", line)
        if not lm:
            raise Unrecognised(f"{path}: build_arrow_crate! invocation of an unknown shape: {line!r}")
        macro_rows.append(tuple(int(x) for x in lm.groups()))
    if not macro_rows:
        raise Unrecognised(f"{path}: no `#[cfg(has_arrow_N)] build_arrow_crate!(arrow_array_N, arrow_schema_N);` line found")
    if not re.search(r"macro_rules!\s+build_arrow_crate\s*\{\s*\(\s*\$arrow_array:ident\s*,\s*\$arrow_schema:ident\s*\)", src):
        raise Unrecognised(f"{path}: macro_rules! build_arrow_crate ($arrow_array:ident, $arrow_schema:ident) not found")
    a2_rows = []
    for m in re.finditer(r"#\[cfg\((has_arrow2\w*)\)\]\s*(?:#\[doc\(hidden\)\]\s*)?pub\s+use\s+(\w+)\s+as\s+arrow2\s*;", src):
        cm = re.fullmatch(r"has_arrow2_0_(\d+)", m.group(1))
        um = re.fullmatch(r"arrow2_0_(\d+)", m.group(2))
        if not (cm and um):
            raise Unrecognised(f"{path}: arrow2 re-export of an unknown shape: {m.group(0)!r}")
        a2_rows.append((int(cm.group(1)), int(um.group(1))))
    if len(a2_rows) != len(re.findall(r"\bas\s+arrow2\s*;", src)):
        raise Unrecognised(f"{path}: a `.. as arrow2;` re-export is not guarded by `#[cfg(has_arrow2_0_N)]`")
    # the public modules are compiled under has_arrow / has_arrow2
    gates = []
    for mod, cfg in re.findall(r"#\[cfg\((\w+)\)\]\s*mod\s+(arrow_impl|arrow2_impl)\s*;", src):
        gates.append((cfg, mod))
    if sorted(gates) != [("arrow2_impl", "has_arrow2"), ("arrow_impl", "has_arrow")]:
        raise Unrecognised(f"{path}: `#[cfg(has_arrow)] mod arrow_impl;` / `#[cfg(has_arrow2)] mod arrow2_impl;` not found (got {gates})")
    return macro_rows, a2_rows


# ---------------------------------------------------------------- Lean output

def lstr(s):
    return '"' + s.replace("\\", "\\\\").replace('"', '\\"') + '"'


def llist(items, indent="  "):
    if not items:
        return "[]"
    return "[\n" + ",\n".join(indent + "  " + x for x in items) + "]"


def render(repo):
    sa = os.path.join(repo, "serde_arrow")
    af, a2f, ad, a2d, check_cfg = parse_cargo(os.path.join(sa, "Cargo.toml"))
    ba, sel, plain, thresholds, ba2, sel2, plain2 = parse_build_rs(os.path.join(sa, "build.rs"))
    la, la2 = parse_lib_rs(os.path.join(sa, "src", "lib.rs"))

    def feat_rows(fs):
        return [f"({n}, [{', '.join(lstr(x) for x in ms)}])" for n, ms in fs]

    def dep_rows(ds):
        return [f"({lstr(name)}, {n}, {lstr(pkg)}, {lstr(ver)}, {'true' if opt else 'false'})" for name, n, pkg, ver, opt in ds]

    out = []
    out.append("-- generated by translator/run.py from serde_arrow/{Cargo.toml, build.rs, src/lib.rs} — do not edit;")
    out.append("-- ./check regenerates this file from the repository before every build (committed so that a clean checkout builds)")
    out.append("namespace SaModel.Generated.ArrowVersions")
    out.append("")
    out.append("/-- Cargo.toml `[features]`: `arrow-N = [members]` in file order -/")
    out.append(f"def cargoArrowFeatures : List (Nat × List String) := {llist(feat_rows(af))}")
    out.append("")
    out.append("/-- Cargo.toml `[features]`: `arrow2-0-N = [members]` -/")
    out.append(f"def cargoArrow2Features : List (Nat × List String) := {llist(feat_rows(a2f))}")
    out.append("")
    out.append("/-- Cargo.toml `[dependencies]` `arrow-array-N` / `arrow-schema-N`: (name, N, package, version requirement, optional) -/")
    out.append(f"def cargoArrowDeps : List (String × Nat × String × String × Bool) := {llist(dep_rows(ad))}")
    out.append("")
    out.append("/-- Cargo.toml `[dependencies]` `arrow2-0-N`: (name, N, package, version requirement, optional) -/")
    out.append(f"def cargoArrow2Deps : List (String × Nat × String × String × Bool) := {llist(dep_rows(a2d))}")
    out.append("")
    out.append("/-- Cargo.toml check-cfg entries `cfg(has_arrow_N)` -/")
    out.append(f"def cargoCheckCfg : List Nat := [{', '.join(str(n) for n in check_cfg)}]")
    out.append("")
    out.append("/-- build.rs `max_arrow_version` table: (N of `#[cfg(feature = \"arrow-N\")]`, the value listed under it) -/")
    out.append(f"def buildRsArrow : List (Nat × Nat) := [{', '.join(f'({a}, {b})' for a, b in ba)}]")
    out.append("")
    out.append("/-- build.rs `max_arrow2_version` table: (N of `#[cfg(feature = \"arrow2-0-N\")]`, the value listed under it) -/")
    out.append(f"def buildRsArrow2 : List (Nat × Nat) := [{', '.join(f'({a}, {b})' for a, b in ba2)}]")
    out.append("")
    out.append("/-- build.rs: the iterator adaptor that selects one entry of each table (`.into_iter().<selector>()`) -/")
    out.append(f"def buildRsSelector : String := {lstr(sel)}")
    out.append(f"def buildRsSelector2 : String := {lstr(sel2)}")
    out.append("")
    out.append("/-- build.rs: cfg flags printed unconditionally for the selected version (`{version}` is the placeholder) -/")
    out.append(f"def buildRsCfgs : List String := [{', '.join(lstr(x) for x in plain)}]")
    out.append(f"def buildRsCfgs2 : List String := [{', '.join(lstr(x) for x in plain2)}]")
    out.append("")
    out.append("/-- build.rs: `if version <op> T { println!(\"cargo:rustc-cfg=<flag>\") }`: (flag, op, T) -/")
    out.append(f"def buildRsThresholds : List (String × String × Nat) := [{', '.join(f'({lstr(f)}, {lstr(op)}, {t})' for f, op, t in thresholds)}]")
    out.append("")
    out.append("/-- lib.rs `#[cfg(has_arrow_C)] build_arrow_crate!(arrow_array_A, arrow_schema_S);`: (C, A, S) in file order -/")
    out.append(f"def libRsArrow : List (Nat × Nat × Nat) := [{', '.join(f'({c}, {a}, {s})' for c, a, s in la)}]")
    out.append("")
    out.append("/-- lib.rs `#[cfg(has_arrow2_0_C)] pub use arrow2_0_U as arrow2;`: (C, U) -/")
    out.append(f"def libRsArrow2 : List (Nat × Nat) := [{', '.join(f'({c}, {u})' for c, u in la2)}]")
    out.append("")
    out.append("end SaModel.Generated.ArrowVersions")
    return "\n".join(out) + "\n"


# (generated module, properties whose obligations read it, renderer)
GENERATORS = [
    ("ArrowVersions", ["C19"], render),
    ("AdapterBodies", ["C19"], adapter_bodies.render),
    ("CoerceArms", ["C07"], coerce_arms.render),
    ("TypeNames", ["C09"], type_names.render),
] + constants.GENERATORS + arith_sites.GENERATORS + takes.GENERATORS


# generators whose refusal is reported as a NOTE only (the arithmetic / indexing site inventory: `translator/arith_sites.py`)
ADVISORY = {"ArithSites"}


def main(argv):
    """run.py [--prop Cxx]: every file is regenerated on every run; the exit status is non-zero when a source
    shape was not recognised by a generator that serves the given property (by any generator without --prop)"""
    prop = None
    if len(argv) >= 2 and argv[0] == "--prop":
        prop = argv[1]
    elif argv:
        print("usage: run.py [--prop Cxx]")
        return 2
    rc = 0
    try:
        repo = repo_root()
    except Unrecognised as e:
        print(f"translator: {e}")
        return 1
    tables2.Unrecognised = Unrecognised
    t2props = {"Annotations.lean": ["C18"], "AcceptMatrix.lean": ["C01", "C05"], "ReaderMatrix.lean": ["C02"]}
    generators = GENERATORS + [(n[:-5], t2props.get(n, ["C18", "C01", "C05", "C02"]), fn) for n, fn in tables2.TABLES]
    for name, props, fn in generators:
        rel = os.path.join("lean", "SaModel", "Generated", name + ".lean")
        try:
            text = fn(repo)
        except Unrecognised as e:
            if name in ADVISORY:
                # an audit artefact, not an obligation: reported as a NOTE, never as a violation (DESIGN.md 7.2: the false-alarm
                # probe showed 5 of 14 harmless refactors tripping the site inventory)
                if prop is None or prop in props:
                    print(f"NOTE translator: {rel} ({', '.join(props)}), advisory: {e}")
                continue
            concerns = prop is None or prop in props
            print(f"translator: {rel} ({', '.join(props)}): source shape not recognised: {e}"
                  + ("" if concerns else f" [does not concern {prop}]"))
            if concerns:
                rc = 1
            continue
        if write_if_changed(os.path.join(ROOT, rel), text):
            print(f"translator: regenerated {rel} from {repo}")
    return rc


if __name__ == "__main__":
    sys.exit(main(sys.argv[1:]))
