"""
A small tokenizer for the regular Rust shapes the translator reads (no macros-by-example, no raw strings with
hashes beyond r"..." / r#"..."#, no nested block comments beyond one level of counting).  It exists so that the
parsers work on tokens — comments, line breaks and rustfmt's re-wrapping of long patterns do not matter — and so that
string literals are never mistaken for code.
"""
import re


class Unrecognised(Exception):
    pass


class Tok:
    __slots__ = ("kind", "text", "line")

    def __init__(self, kind, text, line):
        self.kind, self.text, self.line = kind, text, line

    def __repr__(self):
        return f"{self.kind}:{self.text!r}@{self.line}"


PUNCT3 = ("..=", "...", "<<=", ">>=")
PUNCT2 = ("=>", "==", "!=", "&&", "||", "::", "->", "..", "<=", ">=", "+=", "-=", "*=", "/=", "<<", ">>")
IDENT_RE = re.compile(r"[A-Za-z_][A-Za-z0-9_]*")
NUM_RE = re.compile(r"[0-9][0-9A-Za-z_]*(?:\.[0-9][0-9A-Za-z_]*)?")


def unescape(body, path, line):
    out, i = [], 0
    simple = {"n": "\n", "t": "\t", "r": "\r", "0": "\0", "\\": "\\", '"': '"', "'": "'"}
    while i < len(body):
        c = body[i]
        if c != "\\":
            out.append(c)
            i += 1
            continue
        if i + 1 >= len(body):
            raise Unrecognised(f"{path}:{line}: dangling backslash in a string literal")
        e = body[i + 1]
        if e in simple:
            out.append(simple[e])
            i += 2
        elif e == "x":
            out.append(chr(int(body[i + 2:i + 4], 16)))
            i += 4
        elif e == "u":
            m = re.match(r"\{([0-9a-fA-F_]{1,8})\}", body[i + 2:])
            if not m:
                raise Unrecognised(f"{path}:{line}: bad \\u escape in a string literal")
            out.append(chr(int(m.group(1).replace("_", ""), 16)))
            i += 2 + m.end()
        elif e == "\n":
            i += 2
            while i < len(body) and body[i] in " \t\r\n":
                i += 1
        else:
            raise Unrecognised(f"{path}:{line}: unknown escape \\{e} in a string literal")
    return "".join(out)


def tokenize(src, path="<src>"):
    """→ list of Tok; kinds: ident, num, str (text = the unescaped value), char, life, punct"""
    toks = []
    i, n, line = 0, len(src), 1
    while i < n:
        c = src[i]
        if c == "\n":
            line += 1
            i += 1
            continue
        if c in " \t\r":
            i += 1
            continue
        if src.startswith("//", i):
            j = src.find("\n", i)
            i = n if j < 0 else j
            continue
        if src.startswith("/*", i):
            depth, j = 1, i + 2
            while j < n and depth:
                if src.startswith("/*", j):
                    depth += 1
                    j += 2
                elif src.startswith("*/", j):
                    depth -= 1
                    j += 2
                else:
                    if src[j] == "\n":
                        line += 1
                    j += 1
            if depth:
                raise Unrecognised(f"{path}:{line}: unterminated block comment")
            i = j
            continue
        m = re.match(r'b?r(#*)"', src[i:])
        if m:
            hashes = m.group(1)
            start = i + m.end()
            end = src.find('"' + hashes, start)
            if end < 0:
                raise Unrecognised(f"{path}:{line}: unterminated raw string")
            text = src[start:end]
            toks.append(Tok("str", text, line))
            line += text.count("\n")
            i = end + 1 + len(hashes)
            continue
        if c == '"' or (c == "b" and src.startswith('b"', i)):
            j = i + (2 if c == "b" else 1)
            start = j
            while j < n and src[j] != '"':
                j += 2 if src[j] == "\\" else 1
            if j >= n:
                raise Unrecognised(f"{path}:{line}: unterminated string literal")
            body = src[start:j]
            toks.append(Tok("str", unescape(body, path, line), line))
            line += body.count("\n")
            i = j + 1
            continue
        if c == "'":
            m = re.match(r"'(\\.[^']*|[^'\\])'", src[i:])
            if m:
                toks.append(Tok("char", unescape(m.group(1), path, line), line))
                i += m.end()
                continue
            m = re.match(r"'[A-Za-z_][A-Za-z0-9_]*", src[i:])
            if m:
                toks.append(Tok("life", m.group(0), line))
                i += m.end()
                continue
            raise Unrecognised(f"{path}:{line}: stray single quote")
        m = IDENT_RE.match(src, i)
        if m:
            toks.append(Tok("ident", m.group(0), line))
            i = m.end()
            continue
        m = NUM_RE.match(src, i)
        if m:
            toks.append(Tok("num", m.group(0), line))
            i = m.end()
            continue
        for group in (PUNCT3, PUNCT2):
            for p in group:
                if src.startswith(p, i):
                    toks.append(Tok("punct", p, line))
                    i += len(p)
                    break
            else:
                continue
            break
        else:
            toks.append(Tok("punct", c, line))
            i += 1
    return toks


OPEN = {"(": ")", "[": "]", "{": "}"}
CLOSE = {")", "]", "}"}


def match_close(toks, i, path="<src>"):
    """toks[i] is an opening bracket → index of the matching closing bracket"""
    if toks[i].kind != "punct" or toks[i].text not in OPEN:
        raise Unrecognised(f"{path}:{toks[i].line}: expected an opening bracket, found {toks[i].text!r}")
    stack = [OPEN[toks[i].text]]
    j = i + 1
    while j < len(toks):
        t = toks[j]
        if t.kind == "punct":
            if t.text in OPEN:
                stack.append(OPEN[t.text])
            elif t.text in CLOSE:
                if t.text != stack[-1]:
                    raise Unrecognised(f"{path}:{t.line}: bracket mismatch: expected {stack[-1]!r}, found {t.text!r}")
                stack.pop()
                if not stack:
                    return j
        j += 1
    raise Unrecognised(f"{path}:{toks[i].line}: unbalanced {toks[i].text!r}")


def texts(toks):
    return [t.text if t.kind != "str" else '"' + t.text + '"' for t in toks]


def show(toks, limit=14):
    ts = texts(toks)
    return " ".join(ts[:limit]) + (" …" if len(ts) > limit else "")


def find_seq(toks, seq, start=0):
    """index of the first occurrence of the token texts `seq` (string literals never match), or -1"""
    k = len(seq)
    for i in range(start, len(toks) - k + 1):
        if all(toks[i + j].text == seq[j] and toks[i + j].kind != "str" for j in range(k)):
            return i
    return -1


def split_top(toks, sep):
    """split at top-level occurrences of the punctuation `sep`; a trailing separator yields no empty last part"""
    parts, cur, depth = [], [], 0
    for t in toks:
        if t.kind == "punct":
            if t.text in OPEN:
                depth += 1
            elif t.text in CLOSE:
                depth -= 1
            elif t.text == sep and depth == 0:
                parts.append(cur)
                cur = []
                continue
        cur.append(t)
    if cur:
        parts.append(cur)
    return parts
