"""
translator/tables2.py: tables read off the builder / reader sources (properties C18, C01/C05, C02).

Called from translator/run.py (`tables2.run(repo, ROOT, Unrecognised, write_if_changed)`).  Three generated files:

  lean/SaModel/Generated/Annotations.lean   (A, C18)  every `impl … Context for X` of internal/serialization and
                                            internal/deserialization: keys of `set_default`, the label table, the
                                            enum instantiations and the constructor tables that select them
  lean/SaModel/Generated/AcceptMatrix.lean  (B, C01/C05)  which `serialize_*` methods each builder overrides
  lean/SaModel/Generated/ReaderMatrix.lean  (C, C02)  which `deserialize_*` methods each reader overrides

The parsers are deliberately narrow: they recognise the shapes that exist and raise `Unrecognised` (naming
file and construct) on anything else.  What each one accepts and refuses is recorded in notes/translator2.md.
Nothing is *checked* here: the comparison with the model is a `decide` obligation in
lean/SaModel/Props/{C18Gen,C05Gen,C02Gen}.lean.
"""
import glob
import os
import re


class Unrecognised(Exception):
    """replaced by run.py's own class in `run` so that its `except` clause sees our failures"""


def _fail(msg):
    raise Unrecognised(msg)


# ---------------------------------------------------------------------------------------------------------
# a small Rust lexer: enough to blank comments, find matching brackets and split at top-level separators
# ---------------------------------------------------------------------------------------------------------

def _skip_string(src, i):
    """src[i] == '"' : index just after the closing quote"""
    j = i + 1
    while j < len(src):
        c = src[j]
        if c == "\\":
            j += 2
            continue
        if c == '"':
            return j + 1
        j += 1
    _fail("unterminated string literal")


def _skip_raw_string(src, i):
    """src[i] == 'r' followed by #*" : index after the closing quote, or None when this is no raw string"""
    m = re.match(r'r(#*)"', src[i:])
    if not m:
        return None
    close = '"' + m.group(1)
    j = src.find(close, i + len(m.group(0)))
    if j < 0:
        _fail("unterminated raw string literal")
    return j + len(close)


def _char_literal_end(src, i):
    """src[i] == "'" : index after a char literal, or None when this is a lifetime"""
    m = re.match(r"'(\\x[0-9a-fA-F]{2}|\\u\{[0-9a-fA-F_]+\}|\\.|[^\\'])'", src[i:])
    return i + len(m.group(0)) if m else None


def blank_comments(src):
    """replace comments by spaces (same length, newlines kept); string and char literals are left alone"""
    out = list(src)
    i, n = 0, len(src)
    while i < n:
        c = src[i]
        if c == '"':
            i = _skip_string(src, i)
        elif c == "r" and (i == 0 or not (src[i - 1].isalnum() or src[i - 1] == "_")) and _skip_raw_string(src, i):
            i = _skip_raw_string(src, i)
        elif c == "'":
            e = _char_literal_end(src, i)
            i = e if e else i + 1
        elif src.startswith("//", i):
            j = src.find("\n", i)
            j = n if j < 0 else j
            for k in range(i, j):
                out[k] = " "
            i = j
        elif src.startswith("/*", i):
            depth, j = 1, i + 2
            while j < n and depth:
                if src.startswith("/*", j):
                    depth, j = depth + 1, j + 2
                elif src.startswith("*/", j):
                    depth, j = depth - 1, j + 2
                else:
                    j += 1
            for k in range(i, j):
                if out[k] != "\n":
                    out[k] = " "
            i = j
        else:
            i += 1
    return "".join(out)


OPEN = {"(": ")", "[": "]", "{": "}"}


def match_close(src, i):
    """src[i] is one of ( [ { : index of the matching closer (comments already blanked)"""
    want = [OPEN[src[i]]]
    j = i + 1
    while j < len(src):
        c = src[j]
        if c == '"':
            j = _skip_string(src, j)
            continue
        if c == "r" and not (src[j - 1].isalnum() or src[j - 1] == "_"):
            e = _skip_raw_string(src, j)
            if e:
                j = e
                continue
        if c == "'":
            e = _char_literal_end(src, j)
            j = e if e else j + 1
            continue
        if c in OPEN:
            want.append(OPEN[c])
        elif c in ")]}":
            if c != want[-1]:
                _fail(f"unbalanced brackets near offset {j}: expected {want[-1]!r}, found {c!r}")
            want.pop()
            if not want:
                return j
        j += 1
    _fail(f"no closing bracket for the one at offset {i}")


def match_angle(src, i):
    """src[i] == '<' in a type / generics position: index of the matching '>' (`->` is not a closer)"""
    depth, j = 0, i
    while j < len(src):
        c = src[j]
        if c == "<":
            depth += 1
        elif c == ">" and src[j - 1] != "-":
            depth -= 1
            if depth == 0:
                return j
        elif c in "({[":
            j = match_close(src, j)
        elif c in ";{}":
            break
        j += 1
    _fail(f"no closing '>' for the '<' at offset {i}")


def split_top(src, sep):
    """split at `sep` (one character) outside brackets, angle brackets of types excluded from nesting"""
    parts, start, j = [], 0, 0
    while j < len(src):
        c = src[j]
        if c == '"':
            j = _skip_string(src, j)
            continue
        if c == "'":
            e = _char_literal_end(src, j)
            j = e if e else j + 1
            continue
        if c in OPEN:
            j = match_close(src, j) + 1
            continue
        if c == sep:
            parts.append(src[start:j])
            start = j + 1
        j += 1
    parts.append(src[start:])
    return parts


def split_generics(src):
    """split the inside of `<…>` at commas that are outside nested `<…>` and brackets"""
    parts, start, depth, j = [], 0, 0, 0
    while j < len(src):
        c = src[j]
        if c in OPEN:
            j = match_close(src, j) + 1
            continue
        if c == "<":
            depth += 1
        elif c == ">" and src[j - 1] != "-":
            depth -= 1
        elif c == "," and depth == 0:
            parts.append(src[start:j])
            start = j + 1
        j += 1
    parts.append(src[start:])
    return [p.strip() for p in parts if p.strip()]


def ws(s):
    return re.sub(r"\s+", " ", s).strip()


def str_lit(expr, where):
    """the value of a plain string literal expression"""
    e = expr.strip()
    if not (len(e) >= 2 and e[0] == '"' and _skip_string(e, 0) == len(e)):
        _fail(f"{where}: expected a string literal, found `{ws(expr)}`")
    body = e[1:-1]
    if "\\" in body:
        simple = {"\\\\": "\\", '\\"': '"', "\\n": "\n", "\\t": "\t"}
        out, k = [], 0
        while k < len(body):
            if body[k] == "\\":
                esc = body[k:k + 2]
                if esc not in simple:
                    _fail(f"{where}: escape {esc!r} in a string literal is not handled")
                out.append(simple[esc])
                k += 2
            else:
                out.append(body[k])
                k += 1
        body = "".join(out)
    return body


def norm_type(t):
    """a type as written, without lifetimes and whitespace noise: `BytesView<'_, i32>` -> `BytesView<i32>`"""
    t = re.sub(r"'\w+\s*,\s*", "", t)
    t = re.sub(r"<\s*'\w+\s*>", "", t)
    t = re.sub(r"\s+", "", t)
    return t.replace(",", ", ")


def split_type(t):
    """`Name<args>` -> (Name, [args]) with lifetimes dropped"""
    t = t.strip()
    m = re.match(r"([A-Za-z_$][\w:]*)\s*(<)?", t)
    if not m:
        _fail(f"type of an unknown shape: `{t}`")
    name = m.group(1)
    args = []
    if m.group(2):
        lt = m.end() - 1
        gt = match_angle(t, lt)
        if t[gt + 1:].strip():
            _fail(f"type of an unknown shape: `{t}`")
        args = [norm_type(a) for a in split_generics(t[lt + 1:gt]) if not re.fullmatch(r"'\w+", a.strip())]
    elif t[m.end():].strip():
        _fail(f"type of an unknown shape: `{t}`")
    return name, args


class Impl:
    """one `impl<generics> Trait<targs> for Target where … { body }`"""
    def __init__(self, file, trait, generics, target, where, body, start):
        self.file, self.trait, self.generics, self.target, self.where, self.body, self.start = \
            file, trait, generics, target, where, body, start
        self.base, self.args = split_type(target)
        # type parameters and their bounds: `I: NamedType + Integer`
        self.params = {}
        for g in generics:
            if g.startswith("'"):
                continue
            name, _, bounds = g.partition(":")
            self.params[name.strip()] = [ws(b) for b in bounds.split("+") if b.strip()]
        for clause in split_generics(where):
            name, _, bounds = clause.partition(":")
            name = name.strip()
            if name in self.params:
                self.params[name] += [ws(b) for b in bounds.split("+") if b.strip()]

    @property
    def written(self):
        return norm_type(self.target)


def find_impls(file, src, trait):
    """all `impl … <trait>[<…>] for …` blocks of `src` (comments blanked)"""
    out = []
    for m in re.finditer(r"\bimpl\b", src):
        i = m.end()
        while i < len(src) and src[i].isspace():
            i += 1
        generics = []
        if i < len(src) and src[i] == "<":
            gt = match_angle(src, i)
            generics = split_generics(src[i + 1:gt])
            i = gt + 1
        brace = src.find("{", i)
        semi = src.find(";", i)
        if brace < 0 or (0 <= semi < brace):
            continue
        head = src[i:brace]
        hm = re.match(r"\s*([\w:]+)\s*(<[^{]*?>)?\s+for\s+(.*)$", head, flags=re.S)
        if not hm:
            continue                                  # inherent impl
        tname = hm.group(1).split("::")[-1]
        if tname != trait:
            continue
        rest = hm.group(3)
        target, where = rest, ""
        wm = re.search(r"\bwhere\b", rest)
        if wm:
            target, where = rest[:wm.start()], rest[wm.end():]
        end = match_close(src, brace)
        out.append(Impl(file, tname, generics, ws(target), ws(where), src[brace + 1:end], m.start()))
    return out


def find_fns(body, where):
    """`fn name<…>(params) -> ret { body }` items directly inside an impl / trait body: name -> (params, body|None)"""
    fns = {}
    i = 0
    while True:
        m = re.compile(r"\bfn\s+(\w+)").search(body, i)
        if not m:
            break
        j = m.end()
        while body[j].isspace():
            j += 1
        if body[j] == "<":
            j = match_angle(body, j) + 1
        while body[j].isspace():
            j += 1
        if body[j] != "(":
            _fail(f"{where}: fn {m.group(1)}: parameter list not found")
        pe = match_close(body, j)
        params = body[j + 1:pe]
        k = pe + 1
        while k < len(body) and body[k] not in "{;":
            k += 1
        if k >= len(body):
            _fail(f"{where}: fn {m.group(1)}: neither body nor `;`")
        if body[k] == ";":
            fns[m.group(1)] = (params, None)
            i = k + 1
        else:
            e = match_close(body, k)
            if m.group(1) in fns:
                _fail(f"{where}: fn {m.group(1)} defined twice")
            fns[m.group(1)] = (params, body[k + 1:e])
            i = e + 1
    return fns


# ---------------------------------------------------------------------------------------------------------
# A. annotation tables
# ---------------------------------------------------------------------------------------------------------

def parse_named_types(path, src):
    """utils/mod.rs: `impl_named_type!(i8, …)` with `const NAME: &'static str = stringify!($ty);`
    => NAME of a listed type is its own spelling"""
    if not re.search(r"pub\s+trait\s+NamedType\s*\{\s*const\s+NAME\s*:\s*&'static\s+str\s*;\s*\}", src):
        _fail(f"{path}: `pub trait NamedType {{ const NAME: &'static str; }}` not found")
    m = re.search(r"macro_rules!\s*impl_named_type\s*\{", src)
    if not m:
        _fail(f"{path}: macro impl_named_type! not found")
    mbody = src[m.end():match_close(src, m.end() - 1)]
    if not re.search(r"impl\s+NamedType\s+for\s+\$ty\s*\{\s*const\s+NAME\s*:\s*&'static\s+str\s*=\s*stringify!\(\$ty\)\s*;\s*\}", mbody):
        _fail(f"{path}: impl_named_type! no longer defines NAME as stringify!($ty)")
    calls = re.findall(r"(?<!macro_rules! )\bimpl_named_type!\s*\(([^)]*)\)", src)
    if len(calls) != 1:
        _fail(f"{path}: expected exactly one invocation impl_named_type!(…), found {len(calls)}")
    others = [i for i in find_impls(path, src, "NamedType") if i.target != "$ty"]
    if others:
        _fail(f"{path}: a hand-written `impl NamedType for {others[0].target}` (NAME need not be the type's spelling)")
    return [t.strip() for t in calls[0].split(",") if t.strip()]


def const_table(file, src, trait, ident):
    """`impl <trait> for S { const <ident>: &'static str = "v"; }` for every impl in the file: [(S, v)]"""
    if not re.search(r"\btrait\s+" + re.escape(trait) + r"\b", src):
        _fail(f"{file}: trait {trait} (bound of a label expression) is not defined in this file")
    rows = []
    for imp in find_impls(file, src, trait):
        m = re.search(r"\bconst\s+" + re.escape(ident) + r"\s*:\s*&'static\s+str\s*=\s*([^;]+);", imp.body)
        if not m:
            _fail(f"{file}: impl {trait} for {imp.target}: `const {ident}: &'static str = \"…\";` not found")
        rows.append((norm_type(imp.target), str_lit(m.group(1), f"{file}: {trait}::{ident} for {imp.target}")))
    if not rows:
        _fail(f"{file}: no impl of {trait} found")
    return rows


def parse_match_table(expr, where):
    """`match <scrutinee> { "a" => "b", …, _ => "z" }` -> (scrutinee, [(pattern | "_", value)])"""
    m = re.match(r"match\s+(.+?)\s*\{", expr, flags=re.S)
    if not m:
        _fail(f"{where}: not a match expression: `{ws(expr)}`")
    ob = m.end() - 1
    cb = match_close(expr, ob)
    if expr[cb + 1:].strip():
        _fail(f"{where}: text after the match expression: `{ws(expr[cb + 1:])}`")
    rows = []
    for arm in split_top(expr[ob + 1:cb], ","):
        if not arm.strip():
            continue
        pat, sep, val = arm.partition("=>")
        if not sep:
            _fail(f"{where}: match arm without `=>`: `{ws(arm)}`")
        pat = pat.strip()
        key = "_" if pat == "_" else str_lit(pat, where + " (match pattern)")
        rows.append((key, str_lit(val, where + " (match arm value)")))
    if len({k for k, _ in rows}) != len(rows):
        _fail(f"{where}: a match pattern occurs twice")
    return ws(m.group(1)), rows


def parse_if_table(expr, where):
    """`if P::NAME == "a" { "x" } else { "y" }` -> (scrutinee, [("a","x"),("_","y")])"""
    m = re.fullmatch(r'\s*if\s+([\w:]+)\s*==\s*("(?:[^"\\]|\\.)*")\s*\{\s*("(?:[^"\\]|\\.)*")\s*\}\s*else\s*\{\s*("(?:[^"\\]|\\.)*")\s*\}\s*',
                     expr, flags=re.S)
    if not m:
        _fail(f"{where}: `if` label of an unknown shape: `{ws(expr)}`")
    return m.group(1), [(str_lit(m.group(2), where), str_lit(m.group(3), where)), ("_", str_lit(m.group(4), where))]


def eval_table(rows, value):
    for k, v in rows:
        if k == value:
            return v
    for k, v in rows:
        if k == "_":
            return v
    return None


def label_of(imp, src, expr, named_types, where):
    """classify the value expression of one `set_default` call.
    returns (kind, rows): kind in path | literal | name | const | format"""
    e = expr.strip()
    if ws(e) == "&self.path":
        return "path", []
    if e.startswith('"'):
        return "literal", [("", str_lit(e, where))]
    fm = re.fullmatch(r"&?\s*format!\s*\((.*)\)", e, flags=re.S)
    if fm:
        parts = split_top(fm.group(1), ",")
        return "format", [("", str_lit(parts[0], where + " (format string)"))]

    def param_const(path_expr):
        pm = re.fullmatch(r"(\w+)::(\w+)", path_expr)
        if not pm:
            _fail(f"{where}: label depends on `{path_expr}`, expected `<type parameter>::<CONST>`")
        p, ident = pm.groups()
        if p not in imp.params:
            _fail(f"{where}: `{p}` in `{path_expr}` is not a type parameter of the impl ({sorted(imp.params)})")
        bounds = [b.split("<")[0].strip() for b in imp.params[p]]
        if ident == "NAME" and "NamedType" in bounds:
            return p, None                      # NAME of a NamedType = the type's own spelling
        for b in bounds:
            if re.search(r"\btrait\s+" + re.escape(b) + r"\b[^{;]*\{", src):
                tm = re.search(r"\btrait\s+" + re.escape(b) + r"\b[^{;]*\{", src)
                tbody = src[tm.end():match_close(src, tm.end() - 1)]
                if re.search(r"\bconst\s+" + re.escape(ident) + r"\s*:\s*&'static\s+str\s*;", tbody):
                    return p, const_table(imp.file, src, b, ident)
        _fail(f"{where}: cannot resolve `{path_expr}`: none of the bounds {bounds} of `{p}` declares "
              f"`const {ident}: &'static str` in {imp.file}")

    if e.startswith("match"):
        scrut, rows = parse_match_table(e, where)
    elif e.startswith("if"):
        scrut, rows = parse_if_table(e, where)
    elif re.fullmatch(r"\w+::\w+", e):
        _, table = param_const(e)
        if table is None:
            _fail(f"{where}: the label is `{e}` itself (a NamedType NAME used as the data type label)")
        return "const", table
    else:
        _fail(f"{where}: value expression of an unknown shape: `{ws(e)}`")
    _, table = param_const(scrut)
    if table is None:
        for k, _ in rows:
            if k != "_" and k not in named_types:
                _fail(f"{where}: match pattern \"{k}\" is not the NAME of any NamedType {named_types}")
        return "name", rows
    out = []
    for self_ty, val in table:
        r = eval_table(rows, val)
        if r is None:
            _fail(f"{where}: the table has no arm for {self_ty} (= \"{val}\") and no `_` arm")
        out.append((self_ty, r))
    return "const", out


def parse_contexts(side, path, named_types):
    file = os.path.relpath(path, os.path.dirname(os.path.dirname(os.path.dirname(path))))
    src = blank_comments(_read(path))
    rows = []
    for imp in find_impls(file, src, "Context"):
        where = f"{file}: impl Context for {imp.written}"
        fns = find_fns(imp.body, where)
        if list(fns) != ["annotate"] or fns["annotate"][1] is None:
            _fail(f"{where}: expected exactly `fn annotate(&self, …) {{ … }}`, found {list(fns)}")
        params, body = fns["annotate"]
        pm = re.fullmatch(r"\s*&self\s*,\s*(\w+)\s*:\s*&mut\s+(?:std::collections::)?BTreeMap<String,\s*String>\s*,?\s*", params)
        if not pm:
            _fail(f"{where}: parameters of annotate of an unknown shape: `{ws(params)}`")
        arg = pm.group(1)
        row = dict(side=side, file=file, rustType=imp.written, base=imp.base,
                   inst="" if all(a in imp.params for a in imp.args) else ", ".join(imp.args),
                   shape="set", keys=[], args=[], labelKind="", labels=[])
        if imp.args and not all(a in imp.params for a in imp.args) and any(a in imp.params for a in imp.args):
            _fail(f"{where}: partly generic, partly concrete type arguments")
        stmts = [s for s in split_top(body, ";") if s.strip()]
        b = ws(body)
        if not stmts:
            if arg != "_":
                _fail(f"{where}: empty body but the map parameter is named `{arg}`")
            row["shape"] = "empty"
        elif re.fullmatch(r"self\.0\.annotate\(" + arg + r"\);?", b):
            row["shape"] = "newtype"
        elif re.fullmatch(r"dispatch!\(self, (?:Self|\w+)\((\w+)\) => \1\.annotate\(" + arg + r"\)\);?", b):
            row["shape"] = "dispatch"
        else:
            if body.strip() and not body.rstrip().endswith(";"):
                _fail(f"{where}: the body does not end in `;` (a tail expression?)")
            for s in stmts:
                sm = re.fullmatch(r"\s*set_default\s*\((.*)\)\s*", s, flags=re.S)
                if not sm:
                    _fail(f"{where}: statement that is no `set_default(…)` call: `{ws(s)}`")
                cargs = [a for a in split_top(sm.group(1), ",") if a.strip()]
                if len(cargs) != 3 or cargs[0].strip() != arg:
                    _fail(f"{where}: `set_default` expects ({arg}, \"key\", value): `{ws(s)}`")
                key = str_lit(cargs[1], where + " (key)")
                kind, labels = label_of(imp, src, cargs[2], named_types, f"{where}, key \"{key}\"")
                row["keys"].append(key)
                row["args"].append("path" if kind == "path" else "label")
                if kind != "path":
                    if row["labelKind"]:
                        _fail(f"{where}: two label-valued annotations")
                    row["labelKind"], row["labels"] = kind, labels
        rows.append(row)
    return rows


def parse_enum(path, src, name):
    """`pub enum <name><'a>? { Variant(Type<args>), … }` -> [(variant, base, "arg, arg")]"""
    m = re.search(r"\bpub\s+enum\s+" + name + r"\s*(?:<[^>{]*>)?\s*\{", src)
    if not m:
        _fail(f"{path}: `pub enum {name}` not found")
    body = src[m.end():match_close(src, m.end() - 1)]
    rows = []
    for item in split_top(body, ","):
        item = re.sub(r"#\[[^\]]*\]", "", item).strip()
        if not item:
            continue
        im = re.fullmatch(r"(\w+)\s*\((.*)\)", item, flags=re.S)
        if not im:
            _fail(f"{path}: enum {name}: variant of an unknown shape: `{ws(item)}`")
        base, args = split_type(im.group(2))
        rows.append((im.group(1), base, ", ".join(args)))
    if len({v for v, _, _ in rows}) != len(rows):
        _fail(f"{path}: enum {name}: a variant name occurs twice")
    return rows


def parse_constructor(path, src, fn_sig, scrutinee, type_aliases, enum_aliases, variants):
    """the `match <scrutinee> { T::Ctor… => …A::Variant(…)…, }` of the function that builds the enum:
    [(Ctor, [Variant…])] in source order; arms without an enum variant must `fail!`"""
    m = re.search(fn_sig, src)
    if not m:
        _fail(f"{path}: `{fn_sig}` not found")
    ob = src.find("{", m.end())
    fbody = src[ob + 1:match_close(src, ob)]
    mm = re.search(r"\bmatch\s+" + scrutinee + r"\s*\{", fbody)
    if not mm:
        _fail(f"{path}: `match {scrutinee} {{` not found in {fn_sig}")
    mb = fbody[mm.end():match_close(fbody, mm.end() - 1)]
    talt = "|".join(type_aliases)
    ealt = "|".join(enum_aliases)
    known = {v for v, _, _ in variants}
    rows = []
    # arms: split at top-level commas does not work for block arms without a comma; walk `pattern =>` heads
    heads = []
    depth_src = mb
    i = 0
    while i < len(depth_src):
        c = depth_src[i]
        if c == '"':
            i = _skip_string(depth_src, i)
            continue
        if c in OPEN:
            # a pattern head may contain parentheses: look for `=>` right after the closer
            e = match_close(depth_src, i)
            i = e + 1
            continue
        if depth_src.startswith("=>", i):
            heads.append(i)
            i += 2
            continue
        i += 1
    prev_end = 0
    arms = []
    for h in heads:
        # the pattern is the text between the end of the previous arm body and `=>`
        j = h + 2
        while depth_src[j].isspace():
            j += 1
        if depth_src[j] == "{":
            e = match_close(depth_src, j) + 1
        else:
            e = j
            while e < len(depth_src):
                c = depth_src[e]
                if c == '"':
                    e = _skip_string(depth_src, e)
                    continue
                if c in OPEN:
                    e = match_close(depth_src, e) + 1
                    continue
                if c == ",":
                    break
                e += 1
        arms.append((depth_src[prev_end:h].strip().lstrip(",").strip(), depth_src[j:e]))
        prev_end = e
    for pat, body in arms:
        pm = re.fullmatch(r"(?:" + talt + r")::(\w+)(?:\s*\(.*\))?", pat, flags=re.S)
        vs = [v for v in re.findall(r"\b(?:" + ealt + r")::(\w+)\s*\(", body)]
        if not pm:
            if vs:
                _fail(f"{path}: {fn_sig}: arm `{ws(pat)}` builds {vs} but its pattern is not `T::Ctor`")
            if "fail!" not in body:
                _fail(f"{path}: {fn_sig}: arm `{ws(pat)}` neither builds a variant nor fails")
            continue
        for v in vs:
            if v not in known:
                _fail(f"{path}: {fn_sig}: arm `{ws(pat)}` builds unknown variant {v}")
        if not vs and "fail!" not in body:
            _fail(f"{path}: {fn_sig}: arm `{ws(pat)}` neither builds a variant nor fails")
        if vs:
            rows.append((pm.group(1), vs))
    built = [v for _, vs in rows for v in vs]
    if len(set(built)) != len(built):
        _fail(f"{path}: {fn_sig}: a variant is built in two arms")
    return rows


def lstr(s):
    return '"' + s.replace("\\", "\\\\").replace('"', '\\"').replace("\n", "\\n").replace("\t", "\\t") + '"'


def lstrs(xs):
    return "[" + ", ".join(lstr(x) for x in xs) + "]"


def lpairs(xs):
    return "[" + ", ".join(f"({lstr(a)}, {lstr(b)})" for a, b in xs) + "]"


def llist(items, indent="  "):
    if not items:
        return "[]"
    return "[\n" + ",\n".join(indent + "  " + x for x in items) + "]"


def _read(path):
    try:
        with open(path, encoding="utf-8") as f:
            return f.read()
    except OSError as e:
        _fail(f"cannot read {path}: {e}")


def render_annotations(repo):
    internal = os.path.join(repo, "serde_arrow", "src", "internal")
    named = parse_named_types("internal/utils/mod.rs", blank_comments(_read(os.path.join(internal, "utils", "mod.rs"))))
    ctxs = []
    for side, d in (("ser", "serialization"), ("de", "deserialization")):
        files = sorted(glob.glob(os.path.join(internal, d, "*.rs")))
        if not files:
            _fail(f"no sources in {os.path.join(internal, d)}")
        for f in files:
            ctxs += parse_contexts(side, f, named)
    if len(ctxs) < 40:
        _fail(f"only {len(ctxs)} `impl Context` found in serialization/ and deserialization/ (expected about 45)")
    ab_path = os.path.join(internal, "serialization", "array_builder.rs")
    ab_src = blank_comments(_read(ab_path))
    bvars = parse_enum("serialization/array_builder.rs", ab_src, "ArrayBuilder")
    ad_path = os.path.join(internal, "deserialization", "array_deserializer.rs")
    ad_src = blank_comments(_read(ad_path))
    rvars = parse_enum("deserialization/array_deserializer.rs", ad_src, "ArrayDeserializer")
    osb_src = blank_comments(_read(os.path.join(internal, "serialization", "outer_sequence_builder.rs")))
    if not re.search(r"use\s*\{\s*ArrayBuilder as A\s*,\s*DataType as T\s*\}", osb_src):
        _fail("serialization/outer_sequence_builder.rs: `use {ArrayBuilder as A, DataType as T};` not found in build_builder")
    bctor = parse_constructor("serialization/outer_sequence_builder.rs", osb_src, r"\bfn\s+build_builder\s*\(",
                              r"&field\.data_type", ["T", "DataType"], ["A", "ArrayBuilder"], bvars)
    if not re.search(r"use\s*\{\s*ArrayDeserializer as D\s*,\s*View as V\s*\}", ad_src):
        _fail("deserialization/array_deserializer.rs: `use {ArrayDeserializer as D, View as V};` not found in new")
    rctor = parse_constructor("deserialization/array_deserializer.rs", ad_src, r"\bpub\s+fn\s+new\s*\(",
                              r"array", ["V", "View"], ["D", "Self", "ArrayDeserializer"], rvars)

    out = []
    out.append("-- generated by translator/tables2.py from serde_arrow/src/internal/{serialization,deserialization}/*.rs and")
    out.append("-- internal/utils/mod.rs — do not edit; ./check regenerates this file from the repository before every build")
    out.append("namespace SaModel.Generated.Annotations")
    out.append("")
    out.append("/-- one `impl … Context for X`.  `shape`: `set` = a sequence of `set_default(map, key, value)` calls,")
    out.append("`empty` = `fn annotate(&self, _: …) {}`, `newtype` = `self.0.annotate(map)`, `dispatch` = the enum's `dispatch!`.")
    out.append("`keys` / `args`: per call the literal key and whether the value is `&self.path` (`path`) or a label (`label`).")
    out.append("`labelKind`: `literal` (one row, selector \"\"), `name` (rows keyed by `P::NAME` of a `NamedType`, `_` = fallback),")
    out.append("`const` (rows keyed by the type that implements the bound's associated const), `format` (a `format!` string).")
    out.append("`inst`: the concrete type argument when the impl is for one instantiation (`FloatBuilder<f16>`), else \"\". -/")
    out.append("structure Ctx where")
    out.append("  side : String")
    out.append("  file : String")
    out.append("  rustType : String")
    out.append("  base : String")
    out.append("  inst : String")
    out.append("  shape : String")
    out.append("  keys : List String")
    out.append("  args : List String")
    out.append("  labelKind : String")
    out.append("  labels : List (String × String)")
    out.append("deriving Repr, DecidableEq")
    out.append("")
    out.append("/-- `impl_named_type!(…)` in internal/utils/mod.rs: for these types `NAME = stringify!(type)` -/")
    out.append(f"def namedTypes : List String := {lstrs(named)}")
    out.append("")
    out.append("/-- every `impl Context` of internal/serialization/*.rs (`ser`) and internal/deserialization/*.rs (`de`), in file order -/")
    items = []
    for c in ctxs:
        items.append("{ side := %s, file := %s, rustType := %s, base := %s, inst := %s, shape := %s,\n      keys := %s, args := %s, labelKind := %s,\n      labels := %s }" % (
            lstr(c["side"]), lstr(c["file"]), lstr(c["rustType"]), lstr(c["base"]), lstr(c["inst"]), lstr(c["shape"]),
            lstrs(c["keys"]), lstrs(c["args"]), lstr(c["labelKind"]), lpairs(c["labels"])))
    out.append(f"def contexts : List Ctx := {llist(items)}")
    out.append("")
    out.append("/-- `pub enum ArrayBuilder`: (variant, type, type arguments without lifetimes) -/")
    out.append(f"def builderVariants : List (String × String × String) := {llist([f'({lstr(a)}, {lstr(b)}, {lstr(c)})' for a, b, c in bvars])}")
    out.append("")
    out.append("/-- `pub enum ArrayDeserializer<'a>`: (variant, type, type arguments without lifetimes) -/")
    out.append(f"def readerVariants : List (String × String × String) := {llist([f'({lstr(a)}, {lstr(b)}, {lstr(c)})' for a, b, c in rvars])}")
    out.append("")
    out.append("/-- `build_builder` (outer_sequence_builder.rs): per arm `T::<DataType constructor>` the `A::<variant>`s it can build -/")
    out.append(f"def builderCtor : List (String × List String) := {llist([f'({lstr(a)}, {lstrs(b)})' for a, b in bctor])}")
    out.append("")
    out.append("/-- `ArrayDeserializer::new`: per arm `V::<View constructor>` the `D::<variant>`s it can build -/")
    out.append(f"def readerCtor : List (String × List String) := {llist([f'({lstr(a)}, {lstrs(b)})' for a, b in rctor])}")
    out.append("")
    out.append("end SaModel.Generated.Annotations")
    return "\n".join(out) + "\n"


# ---------------------------------------------------------------------------------------------------------
# B / C. which trait methods each builder / reader overrides
# ---------------------------------------------------------------------------------------------------------

def classify_default(body, where):
    """default body of a trait method:
       reject   `fail!(in self, "message")`            detail = the message (as written, trailing blanks included)
       forward  `self.<method>(args)`                   detail = <method>
       other    anything else                           detail = the body with whitespace normalised"""
    b = ws(body).rstrip(";").strip()
    m = re.fullmatch(r'fail!\(\s*in self,\s*("(?:[^"\\]|\\.)*")\s*,?\s*\)', b)
    if m:
        return "reject", str_lit(m.group(1), where)
    m = re.fullmatch(r"self\.(\w+)\(([^()]*)\)", b)
    if m:
        return "forward", m.group(1)
    if "fail!" in b and not b.startswith("try_"):
        _fail(f"{where}: a default body that fails in an unknown way: `{b}`")
    return "other", b


def parse_trait(path, src, trait):
    m = re.search(r"\bpub\s+trait\s+" + trait + r"\b[^{;]*\{", src)
    if not m:
        _fail(f"{path}: `pub trait {trait}` not found")
    body = src[m.end():match_close(src, m.end() - 1)]
    rows = []
    for name, (params, fbody) in find_fns(body, f"{path}: trait {trait}").items():
        if fbody is None:
            rows.append((name, "required", ""))
        else:
            kind, detail = classify_default(fbody, f"{path}: trait {trait}: fn {name}")
            rows.append((name, kind, detail))
    if not rows:
        _fail(f"{path}: trait {trait} has no methods")
    return rows


def parse_forwarders(path, src, trait, target, receiver):
    """`impl … <trait> for <target>`: every fn body must call exactly one `<receiver>.<method>(…)`:
    [(fn, method)] — the wiring between the serde trait and the crate's own trait"""
    imps = [i for i in find_impls(path, src, trait) if i.base == target]
    if len(imps) != 1:
        _fail(f"{path}: expected exactly one `impl {trait} for {target}`, found {len(imps)}")
    rows = []
    for name, (params, body) in find_fns(imps[0].body, f"{path}: impl {trait} for {target}").items():
        calls = re.findall(re.escape(receiver) + r"\s*\.\s*(\w+)\s*\(", body or "")
        if len(calls) != 1:
            _fail(f"{path}: impl {trait} for {target}: fn {name} does not forward to exactly one `{receiver}.<method>(…)` ({calls})")
        rows.append((name, calls[0]))
    return rows


def parse_overrides(side_dir, trait, trait_methods, enum_name):
    """every `impl … <trait> for X` in the directory: (file, written type, base, inst, [overridden methods]);
    for the enum wrapper additionally the method each fn dispatches to"""
    known = {n for n, _, _ in trait_methods}
    rows, enum_forward = [], None
    for f in sorted(glob.glob(os.path.join(side_dir, "*.rs"))):
        file = os.path.join(os.path.basename(side_dir), os.path.basename(f))
        src = blank_comments(_read(f))
        for imp in find_impls(file, src, trait):
            where = f"{file}: impl {trait} for {imp.written}"
            fns = find_fns(imp.body, where)
            for n, (_, body) in fns.items():
                if n not in known:
                    _fail(f"{where}: fn {n} is not a method of the trait")
                if body is None:
                    _fail(f"{where}: fn {n} without body")
            if imp.args and not all(a in imp.params for a in imp.args) and any(a in imp.params for a in imp.args):
                _fail(f"{where}: partly generic, partly concrete type arguments")
            inst = "" if all(a in imp.params for a in imp.args) else ", ".join(imp.args)
            rows.append((file, imp.written, imp.base, inst, list(fns)))
            if imp.base == enum_name:
                enum_forward = []
                for n, (_, body) in fns.items():
                    dm = re.fullmatch(r"dispatch!\(self, (?:Self|\w+)\((\w+)\) => \1\.(\w+)\(.*\)\);?", ws(body), flags=re.S)
                    if not dm:
                        _fail(f"{where}: fn {n} is not `dispatch!(self, Self(x) => x.<method>(…))`: `{ws(body)}`")
                    enum_forward.append((n, dm.group(2)))
    if enum_forward is None:
        _fail(f"{side_dir}: no `impl {trait} for {enum_name}` found")
    return rows, enum_forward


def _arms(where, ctor_rows, variants, impls):
    """per arm of the constructor function: (ctor, [(variant, type, type arguments, index of its impl in `impls`)])"""
    vmap = {v: (b, a) for v, b, a in variants}
    out = []
    for ctor, vs in ctor_rows:
        row = []
        for v in vs:
            base, arg = vmap[v]
            ks = [k for k, (_, _, b, inst, _) in enumerate(impls) if b == base and inst in ("", arg)]
            if len(ks) != 1:
                _fail(f"{where}: variant {v} ({base}<{arg}>) has {len(ks)} impls of the trait, expected exactly one")
            row.append((v, base, arg, ks[0]))
        out.append((ctor, row))
    return out


def _render_matrix(ns, header, trait_doc, trait_methods, impls_doc, impls, extra):
    out = list(header)
    out.append(f"namespace SaModel.Generated.{ns}")
    out.append("")
    out.append(trait_doc)
    out.append(f"def traitMethods : List (String × String × String) := {llist([f'({lstr(a)}, {lstr(b)}, {lstr(c)})' for a, b, c in trait_methods])}")
    out.append("")
    out.append("structure Impl where")
    out.append("  file : String")
    out.append("  rustType : String")
    out.append("  base : String")
    out.append("  inst : String")
    out.append("  methods : List String")
    out.append("  idx : List Nat")
    out.append("deriving Repr, DecidableEq")
    out.append("")
    out.append(impls_doc)
    pos = {n: k for k, (n, _, _) in enumerate(trait_methods)}
    items = ["{ file := %s, rustType := %s, base := %s, inst := %s,\n      methods := %s,\n      idx := [%s] }" % (
                 lstr(f), lstr(w), lstr(b), lstr(i), lstrs(ms), ", ".join(str(pos[m]) for m in ms))
             for f, w, b, i, ms in impls]
    out.append(f"def impls : List Impl := {llist(items)}")
    out.append("")
    for doc, name, ty, rows in extra:
        out.append(doc)
        out.append(f"def {name} : {ty} := {llist(rows)}")
        out.append("")
    out.append(f"end SaModel.Generated.{ns}")
    return "\n".join(out) + "\n"


def render_accept_matrix(repo):
    d = os.path.join(repo, "serde_arrow", "src", "internal", "serialization")
    path = "serialization/simple_serializer.rs"
    src = blank_comments(_read(os.path.join(d, "simple_serializer.rs")))
    tm = parse_trait(path, src, "SimpleSerializer")
    if len(tm) < 30:
        _fail(f"{path}: only {len(tm)} methods in trait SimpleSerializer")
    impls, enum_forward = parse_overrides(d, "SimpleSerializer", tm, "ArrayBuilder")
    ab_src = blank_comments(_read(os.path.join(d, "array_builder.rs")))
    bvars = parse_enum("serialization/array_builder.rs", ab_src, "ArrayBuilder")
    osb_src = blank_comments(_read(os.path.join(d, "outer_sequence_builder.rs")))
    bctor = parse_constructor("serialization/outer_sequence_builder.rs", osb_src, r"\bfn\s+build_builder\s*\(",
                              r"&field\.data_type", ["T", "DataType"], ["A", "ArrayBuilder"], bvars)
    arms = _arms("serialization", bctor, bvars, impls)
    serde = parse_forwarders(path, src, "Serializer", "Mut", "self.0")
    compound = []
    for t in ("SerializeMap", "SerializeSeq", "SerializeStruct", "SerializeTuple", "SerializeTupleStruct",
              "SerializeStructVariant", "SerializeTupleVariant"):
        compound += [(t, a, b) for a, b in parse_forwarders(path, src, t, "Mut", "self.0")]
    header = ["-- generated by translator/tables2.py from serde_arrow/src/internal/serialization/*.rs — do not edit;",
              "-- ./check regenerates this file from the repository before every build"]
    return _render_matrix(
        "AcceptMatrix", header,
        "/-- `pub trait SimpleSerializer`: (method, kind of the default body, detail).  `reject`: `fail!(in self, \"message\")`,\ndetail = the message as written; `forward`: `self.<detail>(…)`; `other`: detail = the body -/",
        tm,
        "/-- every `impl … SimpleSerializer for X` in internal/serialization/*.rs with the methods it overrides, in source order.\n`inst`: the concrete type argument when the impl is for one instantiation (`FloatBuilder<f16>`), else \"\";\n`idx`: the positions of `methods` in `traitMethods` -/",
        impls,
        [("/-- `build_builder`: per arm `T::<DataType constructor>` the variants it builds: (variant, type, type arguments,\nposition in `impls` of the impl of that type) -/",
          "arms", "List (String × List (String × String × String × Nat))",
          [f"({lstr(c)}, [{', '.join(f'({lstr(v)}, {lstr(b)}, {lstr(a)}, {k})' for v, b, a, k in row)}])" for c, row in arms]),
         ("/-- `impl SimpleSerializer for ArrayBuilder`: each fn is `dispatch!(self, Self(b) => b.<method>(…))`: (fn, method) -/",
          "enumForward", "List (String × String)", [f"({lstr(a)}, {lstr(b)})" for a, b in enum_forward]),
         ("/-- `impl Serializer for Mut<T>`: (serde method, the `SimpleSerializer` method it calls on `self.0`) -/",
          "serdeEntry", "List (String × String)", [f"({lstr(a)}, {lstr(b)})" for a, b in serde]),
         ("/-- `impl Serialize{Map,Seq,…} for Mut<T>`: (serde trait, its method, the `SimpleSerializer` method called) -/",
          "serdeCompound", "List (String × String × String)", [f"({lstr(a)}, {lstr(b)}, {lstr(c)})" for a, b, c in compound])])


def render_reader_matrix(repo):
    d = os.path.join(repo, "serde_arrow", "src", "internal", "deserialization")
    path = "deserialization/random_access_deserializer.rs"
    src = blank_comments(_read(os.path.join(d, "random_access_deserializer.rs")))
    tm = parse_trait(path, src, "RandomAccessDeserializer")
    if len(tm) < 30:
        _fail(f"{path}: only {len(tm)} methods in trait RandomAccessDeserializer")
    impls, enum_forward = parse_overrides(d, "RandomAccessDeserializer", tm, "ArrayDeserializer")
    ad_src = blank_comments(_read(os.path.join(d, "array_deserializer.rs")))
    rvars = parse_enum("deserialization/array_deserializer.rs", ad_src, "ArrayDeserializer")
    rctor = parse_constructor("deserialization/array_deserializer.rs", ad_src, r"\bpub\s+fn\s+new\s*\(",
                              r"array", ["V", "View"], ["D", "Self", "ArrayDeserializer"], rvars)
    arms = _arms("deserialization", rctor, rvars, impls)
    serde = parse_forwarders(path, src, "Deserializer", "PositionedDeserializer", "self.0")
    header = ["-- generated by translator/tables2.py from serde_arrow/src/internal/deserialization/*.rs — do not edit;",
              "-- ./check regenerates this file from the repository before every build"]
    return _render_matrix(
        "ReaderMatrix", header,
        "/-- `pub trait RandomAccessDeserializer`: (method, kind of the default body, detail).  `reject`: `fail!(in self, \"message\")`;\n`forward`: `self.<detail>(…)`; `other`: detail = the body (the derived `deserialize_any` / `deserialize_option`, `at`,\nthe transparent `deserialize_newtype_struct`) -/",
        tm,
        "/-- every `impl … RandomAccessDeserializer for X` in internal/deserialization/*.rs with the methods it overrides;\n`idx`: the positions of `methods` in `traitMethods` -/",
        impls,
        [("/-- `ArrayDeserializer::new`: per arm `V::<View constructor>` the variants it builds: (variant, type, type arguments,\nposition in `impls` of the impl of that type) -/",
          "arms", "List (String × List (String × String × String × Nat))",
          [f"({lstr(c)}, [{', '.join(f'({lstr(v)}, {lstr(b)}, {lstr(a)}, {k})' for v, b, a, k in row)}])" for c, row in arms]),
         ("/-- `impl RandomAccessDeserializer for ArrayDeserializer`: each fn is `dispatch!(self, Self(d) => d.<method>(…))` -/",
          "enumForward", "List (String × String)", [f"({lstr(a)}, {lstr(b)})" for a, b in enum_forward]),
         ("/-- `impl Deserializer for PositionedDeserializer<D>`: (serde method, the trait method it calls on `self.0`) -/",
          "serdeEntry", "List (String × String)", [f"({lstr(a)}, {lstr(b)})" for a, b in serde])])


# ---------------------------------------------------------------------------------------------------------
# entry point
# ---------------------------------------------------------------------------------------------------------

TABLES = [
    ("Annotations.lean", render_annotations),
    ("AcceptMatrix.lean", render_accept_matrix),
    ("ReaderMatrix.lean", render_reader_matrix),
]


def run(repo, root, unrecognised=None, write_if_changed=None):
    """regenerate every table; a table whose source is not recognised is left as it is, the others are still
    written, and ONE exception naming all failures is raised at the end"""
    global Unrecognised
    if unrecognised is not None:
        Unrecognised = unrecognised
    errors = []
    for name, render in TABLES:
        try:
            text = render(repo)
        except Unrecognised as e:
            errors.append(f"{name}: {e}")
            continue
        path = os.path.join(root, "lean", "SaModel", "Generated", name)
        if write_if_changed is None:
            changed = not os.path.exists(path) or open(path, encoding="utf-8").read() != text
            if changed:
                os.makedirs(os.path.dirname(path), exist_ok=True)
                with open(path, "w", encoding="utf-8") as f:
                    f.write(text)
        else:
            changed = write_if_changed(path, text)
        if changed:
            print(f"translator: regenerated lean/SaModel/Generated/{name} from {repo}")
    if errors:
        raise Unrecognised("; ".join(errors))


if __name__ == "__main__":
    import sys
    root = os.path.dirname(os.path.dirname(os.path.abspath(__file__)))
    link = os.path.join(root, "harness", "sa_link")
    repo = os.environ.get("SA_REPO") or (link if os.path.exists(link) else "/repo")
    try:
        run(repo, root)
    except Unrecognised as e:
        print(f"translator: source shape not recognised: {e}")
        sys.exit(1)
