"""
Generated/Takes.lean (C10; read by C01 / C03 / C16 / C18 as well): the reset code of every builder as a table.

For every struct of serde_arrow/src/internal/serialization/*.rs with a `take` / `take_self` / `take_*` method, every
`impl ArrayExt for T` of utils/array_ext.rs and the top-level `ArrayBuilder` (internal/array_builder.rs: `new`,
`build_arrays`, `guarded`) the generator reads

  (a) the field list (the struct declaration; for the structs of marrow: the fields of the constructor's literal),
  (b) how the constructor (`new`) initialises each field           → `Val`  (lean/SaModel/Build/TakeTable.lean)
  (c) what the reset method does with the field of `self`          → `Take`
  (d) for a field the reset method keeps: every write to it in the other methods of the type → `writes`

and the `take` methods that only wrap another one (`ArrayBuilder::List(self.take_self())`) → `wrappers`.  It copies
shapes and decides nothing: whether `take` leaves what `new` creates is decided by `TakeTable.fieldProblem`, obligation
`SaModel.Props.C10.gen_takes` (lean/SaModel/Props/C10Gen.lean).

Tolerated rewrites (same table, or a table with the same verdict): `mem::take` / `core::mem::take` for `std::mem::take`;
`Default::default()` / `T::default()` / `Vec::new()` / `vec![]` / `0` / `false` / `None` (all "the Default": told apart
by the translator, identified by `Val.isDefault`); order of the fields in the literals; `Self { .. }` / `TypeName { .. }`;
`Ok(..)` around the literal; a constructor path around it (`ArrayBuilder::Union(Self { .. })`); immutable `let x = <expr>;`
before the literal (substituted); `..self.clone()` as the base of the literal (the remaining fields are clones);
`.map(|v| std::mem::take(v))` for `.map(std::mem::take)`; `collect::<Vec<_>>()`.

Refused (file:line): a reset method whose tail is not such a literal / wrapper / the `dispatch!` forward; a statement other
than `let` before the literal of a reset method; a field treated in any other way (`self.f.drain(..).collect()`,
`mem::take` of ANOTHER field, `mem::swap`); `vec![a, b, …]` with more than one element; two constructing reset methods or
no `new` for a type; another body of `ArrayBuilder::{build_arrays, guarded}` / `OuterSequenceBuilder::take_records`.
"""
import glob
import os

from rust_lex import Unrecognised, match_close, split_top, show
from constants import Src, is_p, is_i, rust_text, find_all, block_after, functions, lstr

SER = "serde_arrow/src/internal/serialization"
ARRAY_EXT = "serde_arrow/src/internal/utils/array_ext.rs"
TOP = "serde_arrow/src/internal/array_builder.rs"
ENUM_FILE = SER + "/array_builder.rs"

MEM = (["std", "::", "mem", "::"], ["core", "::", "mem", "::"], ["mem", "::"])
MUTATORS = {"push", "push_str", "insert", "remove", "clear", "extend", "truncate", "pop", "fill", "retain", "drain", "append",
            "swap", "sort", "resize", "set", "take", "replace", "get_mut", "iter_mut", "as_mut", "entry", "get_or_insert_with",
            "extend_from_slice", "dedup", "reverse", "swap_remove", "split_off", "as_mut_slice", "make_ascii_lowercase",
            "make_ascii_uppercase"}
ASSIGN_OPS = {"=", "+=", "-=", "*=", "/=", "<<=", ">>=", "%=", "|=", "&=", "^="}


def tx(toks):
    return [t.text if t.kind != "str" else '"' + t.text + '"' for t in toks]


# ---------------------------------------------------------------- declarations

def skip_angles(src, toks, i):
    """toks[i] is `<` → index after the matching `>` (`>>` closes two)"""
    depth, j = 0, i
    while j < len(toks):
        t = toks[j]
        if t.kind == "punct":
            if t.text == "<":
                depth += 1
            elif t.text == ">":
                depth -= 1
            elif t.text == ">>":
                depth -= 2
            elif t.text in ("(", "[", "{"):
                j = match_close(toks, j, src.rel)
        j += 1
        if depth <= 0:
            return j
    src.bad(toks[i:], "unbalanced `<`")


def split_angle(toks, sep=","):
    """split at top-level `sep`, `<…>` counted as brackets too (type position only)"""
    parts, cur, depth = [], [], 0
    for t in toks:
        if t.kind == "punct":
            if t.text in ("(", "[", "{", "<"):
                depth += 1
            elif t.text in (")", "]", "}", ">"):
                depth -= 1
            elif t.text == ">>":
                depth -= 2
            elif t.text == sep and depth == 0:
                parts.append(cur)
                cur = []
                continue
        cur.append(t)
    if cur:
        parts.append(cur)
    return parts


def generic_names(toks):
    """`<A, I: Bound, 'a>` (without the angles) → the type parameter names"""
    return [p[0].text for p in split_angle(toks) if p and is_i(p[0]) and p[0].text != "const"]


def type_text(toks):
    return rust_text(toks).replace(" <", "<").replace("< ", "<").replace(" >", ">")


def strip_field_prefix(src, part):
    """attributes and visibility in front of a struct field"""
    i = 0
    while i + 1 < len(part) and is_p(part[i], "#") and is_p(part[i + 1], "["):
        i = match_close(part, i + 1, src.rel) + 1
    if i < len(part) and is_i(part[i], "pub"):
        i += 1
        if i < len(part) and is_p(part[i], "("):
            i = match_close(part, i, src.rel) + 1
    return part[i:]


def struct_decls(src):
    """name → (generic parameter names, [(field, type text)])"""
    toks, res = src.toks, {}
    for i in find_all(toks, ["struct"]):
        if i + 1 >= len(toks) or not is_i(toks[i + 1]):
            continue
        name, j, gens = toks[i + 1].text, i + 2, []
        if j < len(toks) and is_p(toks[j], "<"):
            e = skip_angles(src, toks, j)
            gens = generic_names(toks[j + 1:e - 1])
            j = e
        while j < len(toks) and not (toks[j].kind == "punct" and toks[j].text in ("{", "(", ";")):
            j += 1
        if j >= len(toks) or is_p(toks[j], ";"):
            res[name] = (gens, [])
            continue
        e = match_close(toks, j, src.rel)
        fields = []
        for k, part in enumerate(split_angle(toks[j + 1:e])):
            part = strip_field_prefix(src, part)
            if not part:
                continue
            if is_p(toks[j], "{"):
                if len(part) < 3 or not is_i(part[0]) or not is_p(part[1], ":"):
                    src.bad(part, f"field of struct {name} not of the form `name: Type`")
                fields.append((part[0].text, type_text(part[2:])))
            else:
                fields.append((str(k), type_text(part)))
        res[name] = (gens, fields)
    return res


def last_segment(toks):
    """`a::b::Name<…>` → Name"""
    name = None
    for t in toks:
        if is_i(t):
            name = t.text
        elif t.kind == "punct" and t.text in ("::", "$"):
            continue
        else:
            break
    return name


def impl_blocks(src):
    """[(trait name or None, type name, [(fn name, sig, body)])] for every `impl … {` item (macro bodies included)"""
    toks, out = src.toks, []
    for i in find_all(toks, ["impl"]):
        if i > 0 and toks[i - 1].kind == "punct" and toks[i - 1].text in (":", "(", ",", "->", "&", "<", "+", "=", "|"):
            continue          # `impl Trait` in type position
        try:
            a, b = block_after(src, toks, i)
        except Unrecognised:
            continue
        header = toks[i + 1:a]
        j = 0
        if header and is_p(header[0], "<"):
            j = skip_angles(src, header, 0)
        header = header[j:]
        depth, at_for, at_where = 0, None, None
        for k, t in enumerate(header):
            if t.kind == "punct":
                depth += {"<": 1, ">": -1, ">>": -2, "(": 1, ")": -1}.get(t.text, 0)
            elif depth == 0 and is_i(t, "for") and at_for is None:
                at_for = k
            elif depth == 0 and is_i(t, "where") and at_where is None:
                at_where = k
        if at_where is not None:
            header = header[:at_where]
        trait, ty = (header[:at_for], header[at_for + 1:]) if at_for is not None else (None, header)
        tname = last_segment(ty)
        if tname is None:
            continue
        out.append((last_segment(trait) if trait else None, tname, functions(src, toks[a + 1:b])))
    return out


# ---------------------------------------------------------------- bodies

def split_statements(src, body):
    """statements of a block; the last entry is the tail expression (empty when the block ends in `;`)"""
    stmts, i, n = [], 0, len(body)
    while i < n:
        start = i
        if is_i(body[i]) and body[i].text in ("for", "while", "loop", "if", "match") :
            while True:
                a, b = block_after(src, body, i)
                i = b + 1
                if i < n and is_i(body[i], "else"):
                    continue
                break
            if i < n and is_p(body[i], ";"):
                i += 1
            stmts.append(body[start:i])
            continue
        while i < n and not is_p(body[i], ";"):
            if body[i].kind == "punct" and body[i].text in ("(", "[", "{"):
                i = match_close(body, i, src.rel)
            i += 1
        if i < n:
            stmts.append(body[start:i])
            i += 1
            if i == n:
                stmts.append([])
        else:
            stmts.append(body[start:i])
    return stmts or [[]]


def parse_let(stmt):
    """`let [mut] x [: T] = e` → (x, mutable, e) or None"""
    if not stmt or not is_i(stmt[0], "let"):
        return None
    i, mut = 1, False
    if i < len(stmt) and is_i(stmt[i], "mut"):
        mut, i = True, i + 1
    if i >= len(stmt) or not is_i(stmt[i]):
        return ("", True, stmt)
    name = stmt[i].text
    i += 1
    depth = 0
    while i < len(stmt):
        t = stmt[i]
        if t.kind == "punct":
            if t.text == "=" and depth == 0:
                return (name, mut, stmt[i + 1:])
            depth += {"<": 1, ">": -1, ">>": -2, "(": 1, ")": -1, "[": 1, "]": -1}.get(t.text, 0)
        i += 1
    return (name, True, stmt)


def whole_group(src, toks, i):
    """toks[i] opens a bracket that closes at the very end of toks"""
    return i < len(toks) and toks[i].kind == "punct" and toks[i].text in ("(", "{", "[") and match_close(toks, i, src.rel) == len(toks) - 1


def path_prefix(toks):
    """length of a leading path `a::b::$c` (idents, `::`, `$`)"""
    i = 0
    while i < len(toks) and (is_i(toks[i]) or (toks[i].kind == "punct" and toks[i].text in ("::", "$"))):
        i += 1
    return i


def literal_fields(src, inner):
    """the parts of `{ a: e, b, ..base }` → ([(name, expr toks, shorthand)], base toks or None)"""
    fields, base = [], None
    for part in split_top(inner, ","):
        if is_p(part[0], ".."):
            base = part[1:]
        elif len(part) == 1 and is_i(part[0]):
            fields.append((part[0].text, part, True))
        elif len(part) >= 3 and (is_i(part[0]) or part[0].kind == "num") and is_p(part[1], ":"):
            fields.append((part[0].text, part[2:], False))
        else:
            src.bad(part, "field of a struct literal not of the form `name: expr`, `name` or `..base`")
    return fields, base


def flatten_literal(src, prefix, fields, out):
    """nested struct literals (`array: BooleanArray { len: … }`) become dotted fields"""
    for name, expr, short in fields:
        k = path_prefix(expr)
        if not short and 0 < k < len(expr) and is_p(expr[k], "{") and whole_group(src, expr, k) and expr[0].text[:1].isupper():
            sub, base = literal_fields(src, expr[k + 1:-1])
            if base is not None:
                src.bad(base, "`..base` in a nested struct literal")
            flatten_literal(src, prefix + name + ".", sub, out)
        else:
            out.append((prefix + name, expr, short))


def strip_ok(src, tail):
    if len(tail) >= 3 and is_i(tail[0], "Ok") and whole_group(src, tail, 1):
        return tail[2:-1]
    return tail


def constructing(src, tail, tname):
    """tail expression of `new` / a reset method → ("literal", fields, base) | ("tuple", [expr]) | ("wrapper", callee) |
    ("dispatch",) | None"""
    tail = strip_ok(src, tail)
    if not tail:
        return None
    if tx(tail) == tx_of("dispatch!(self, Self(builder) => builder.take())"):
        return ("dispatch",)
    k = path_prefix(tail)
    if k == 0 or k >= len(tail):
        return None
    head = tail[k - 1].text
    if is_p(tail[k], "{") and whole_group(src, tail, k):
        if k == 1 and head in ("Self", tname):
            fields, base = literal_fields(src, tail[k + 1:-1])
            flat = []
            flatten_literal(src, "", fields, flat)
            return ("literal", flat, base)
        return None
    if is_p(tail[k], "(") and whole_group(src, tail, k):
        inner = tail[k + 1:-1]
        if k == 1 and head in ("Self", tname):
            return ("tuple", split_top(inner, ","))
        it = tx(inner)
        if len(it) == 5 and it[:2] == ["self", "."] and it[3:] == ["(", ")"] and it[2].startswith("take"):
            return ("wrapper", it[2])
        return constructing(src, inner, tname)      # `ArrayBuilder::Union(Self { .. })`
    return None


def tx_of(text):
    from rust_lex import tokenize
    return tx(tokenize(text))


# ---------------------------------------------------------------- values (`Val`)

def lean_len(v):
    return {"field": lambda: f"(.ofField {lstr(v[1])})", "lit": lambda: f"(.lit {v[1]})", "other": lambda: f"(.other {lstr(v[1])})"}[v[0]]()


def lean_val(v):
    k = v[0]
    if k in ("defaultCall", "vecEmpty", "thenNew"):
        return "." + k
    if k in ("newCall", "lit", "arg", "boxArg", "computed"):
        return f"(.{k} {lstr(v[1])})"
    if k == "vecOne":
        return f"(.vecOne {lean_val(v[1])})"
    if k == "vecRepeat":
        return f"(.vecRepeat {lean_val(v[1])} {lean_len(v[2])})"
    if k == "ctor":
        return f"(.ctor {lstr(v[1])} {lstr(v[2])})"
    raise AssertionError(k)


def mem_call(t, fn):
    """t = texts; `[std::|core::]mem::<fn>(` at the start and the bracket closes at the end → index of the first argument token"""
    for pre in MEM:
        p = pre + [fn, "("]
        if t[:len(p)] == p and t[-1] == ")":
            return len(p)
    return None


class Ctx:
    """what an expression of one function body may refer to"""

    def __init__(self, src, params, lets, in_take):
        self.src, self.params, self.lets, self.in_take = src, params, lets, in_take
        self.init_ident = {}     # field → the identifier that initialises it (`new` only)

    def resolve(self, expr):
        seen = set()
        while len(expr) == 1 and is_i(expr[0]) and expr[0].text in self.lets and expr[0].text not in seen:
            mut, e = self.lets[expr[0].text]
            if mut:
                break
            seen.add(expr[0].text)
            expr = e
        return expr

    def length(self, toks):
        toks = self.resolve(toks)
        t = tx(toks)
        if len(toks) == 1 and toks[0].kind == "num":
            digits = toks[0].text.split("_")[0] if not toks[0].text.replace("_", "").isdigit() else toks[0].text.replace("_", "")
            if digits.isdigit():
                return ("lit", int(digits))
        if t[-4:] == [".", "len", "(", ")"]:
            who = t[:-4]
            if self.in_take and len(who) >= 3 and who[0] == "self" and who[1::2] == ["."] * (len(who) // 2):
                return ("field", ".".join(who[2::2]))
            if not self.in_take and len(who) == 1:
                for f, ident in self.init_ident.items():
                    if ident == who[0]:
                        return ("field", f)
        return ("other", rust_text(toks))

    def value(self, toks):
        src = self.src
        toks = self.resolve(toks)
        if toks and is_p(toks[-1], "?"):
            inner = self.value(toks[:-1])
            return inner if inner[0] == "ctor" else ("computed", rust_text(toks))
        t = tx(toks)
        text = rust_text(toks)
        if len(toks) == 1:
            tok = toks[0]
            if tok.kind == "num":
                body = tok.text.replace("_", "")
                for suf in ("usize", "isize", "u8", "u16", "u32", "u64", "u128", "i8", "i16", "i32", "i64", "i128", "f32", "f64"):
                    if body.endswith(suf) and body[:-len(suf)]:
                        body = body[:-len(suf)]
                        break
                if body.isdigit():
                    body = str(int(body))
                return ("lit", body)
            if is_i(tok) and tok.text in ("true", "false", "None"):
                return ("lit", tok.text)
            if is_i(tok) and tok.text in self.params and not self.in_take:
                return ("arg", tok.text)
            if is_i(tok) and tok.text in self.lets:
                return ("computed", "let mut " + tok.text + " = " + rust_text(self.lets[tok.text][1]))
            return ("computed", text)
        if t[-4:] == ["::", "default", "(", ")"]:
            return ("defaultCall",)
        if t[-4:] == ["::", "new", "(", ")"] and path_prefix(toks) == len(toks) - 2:
            return ("newCall", last_segment(toks[:-4]) or text)
        if t[:3] == ["vec", "!", "["] and whole_group(src, toks, 2) or t[:3] == ["vec", "!", "("] and whole_group(src, toks, 2):
            inner = toks[3:-1]
            if not inner:
                return ("vecEmpty",)
            semi = split_top(inner, ";")
            if len(semi) == 2:
                return ("vecRepeat", self.value(semi[0]), self.length(semi[1]))
            items = split_top(inner, ",")
            if len(semi) == 1 and len(items) == 1:
                return ("vecOne", self.value(items[0]))
            src.bad(toks, "`vec![a, b, …]` with more than one element as a fresh value")
        if len(t) >= 6 and t[1:4] == [".", "then", "("] and is_i(toks[0]) and t[-1] == ")":
            arg = t[4:-1]
            if arg in (["Vec", "::", "new"], ["Default", "::", "default"], ["|", "|", "Vec", "::", "new", "(", ")"], ["|", "|", "vec", "!", "[", "]"]):
                return ("thenNew",)
        if t[:4] == ["Box", "::", "new", "("] and len(toks) == 6 and t[-1] == ")" and is_i(toks[4]) and toks[4].text in self.params:
            return ("boxArg", toks[4].text)
        if len(toks) == 5 and is_i(toks[0]) and toks[0].text in self.params and t[1] == "." and t[2] in ("clone", "to_string", "to_owned", "into") and t[3:] == ["(", ")"]:
            return ("arg", toks[0].text)
        k = path_prefix(toks)
        if k >= 3 and t[k - 2:k] == ["::", "new"] and k < len(toks) and is_p(toks[k], "(") and whole_group(src, toks, k):
            return ("ctor", type_text(toks[:k - 2]), rust_text(toks[k + 1:-1]))
        return ("computed", text)


# ---------------------------------------------------------------- treatments (`Take`)

def lean_take(v):
    k = v[0]
    if k in ("memTake", "optMapTake", "clone", "copy"):
        return "." + k
    if k == "replace":
        return f"(.replace {lean_val(v[1])})"
    return f"(.{k} {lstr(v[1])})"


def self_path(field):
    out = ["self"]
    for seg in field.split("."):
        out += [".", seg]
    return out


def mentions(t, sf):
    n = len(sf)
    return any(t[i:i + n] == sf for i in range(len(t) - n + 1))


def treatment(ctx, field, expr):
    src = ctx.src
    toks = ctx.resolve(expr)
    t, sf = tx(toks), self_path(field)
    k = mem_call(t, "take")
    if k is not None and match_close(toks, k - 1, src.rel) == len(toks) - 1:
        if t[k:-1] == ["&", "mut"] + sf:
            return ("memTake",)
        src.bad(toks, f"field `{field}` is filled by mem::take of another place")
    k = mem_call(t, "replace")
    if k is not None and match_close(toks, k - 1, src.rel) == len(toks) - 1:
        args = split_top(toks[k:-1], ",")
        if len(args) == 2 and tx(args[0]) == ["&", "mut"] + sf:
            return ("replace", ctx.value(args[1]))
        src.bad(toks, f"field `{field}` is filled by mem::replace of another place")
    n = len(sf)
    if t[:n] == sf:
        rest = t[n:]
        if not rest:
            return ("copy",)
        if rest == [".", "clone", "(", ")"]:
            return ("clone",)
        if len(rest) == 4 and rest[0] == "." and rest[1].startswith("take") and rest[2:] == ["(", ")"]:
            return ("childTake", rest[1])
        if rest[:7] == [".", "as_mut", "(", ")", ".", "map", "("] and rest[-1] == ")":
            f = rest[7:-1]
            if any(f == pre + ["take"] for pre in MEM):
                return ("optMapTake",)
            if len(f) >= 4 and f[0] == "|" and f[2] == "|" and any(f[3:] == pre + ["take", "(", f[1], ")"] for pre in MEM):
                return ("optMapTake",)
        if rest[:7] == [".", "iter_mut", "(", ")", ".", "map", "("]:
            close = match_close(toks, n + 6, src.rel)
            clo, after = t[n + 7:close], t[close + 1:]
            collect_ok = after[:2] == [".", "collect"] and after[-2:] == ["(", ")"] and (len(after) == 4 or after[2] == "::")
            if collect_ok and len(clo) == 20 and clo[0] == "|" and clo[1] == "(" and clo[3] == "," and clo[5:7] == [")", "|"]:
                a, b = clo[2], clo[4]
                if clo[7:] == ["(", a, ".", clo[10], "(", ")", ",", b, ".", "clone", "(", ")", ")"] and clo[10].startswith("take"):
                    return ("mapChildren", clo[10])
    if t[:4] == ["Box", "::", "new", "("] and t[-1] == ")" and t[4:4 + n] == sf:
        rest = t[4 + n:-1]
        if len(rest) == 4 and rest[0] == "." and rest[1].startswith("take") and rest[2:] == ["(", ")"]:
            return ("boxChildTake", rest[1])
    if not mentions(t, sf):
        return ("untouched", rust_text(toks))
    src.bad(toks, f"treatment of field `{field}` in a reset method not recognised")


def field_writes(src, fns, skip, field, owners=("self",)):
    """writes to `<owner>.field` in the functions not named in `skip`"""
    out = []
    for name, _sig, body in fns:
        if name in skip:
            continue
        t = tx(body)
        for i in range(len(t) - 2):
            if t[i] in owners and t[i + 1] == "." and t[i + 2] == field and body[i].kind == "ident":
                nxt = t[i + 3] if i + 3 < len(t) else ""
                hit = None
                if nxt in ASSIGN_OPS and body[i + 3].kind == "punct":
                    hit = body[i:i + 4]
                elif i >= 2 and t[i - 2:i] == ["&", "mut"]:
                    hit = body[i - 2:i + 3]
                elif nxt == "." and i + 5 < len(t) and t[i + 4] in MUTATORS and t[i + 5] == "(":
                    hit = body[i:i + 6]
                if hit:
                    out.append(f"{name}: {rust_text(hit)}")
    return out


# ---------------------------------------------------------------- one type

def params_of(sig):
    """parameter names of a signature"""
    if not sig or not is_p(sig[0], "("):
        return []
    close = 0
    depth = 0
    for i, t in enumerate(sig):
        if t.kind == "punct" and t.text in ("(", "[", "{"):
            depth += 1
        elif t.kind == "punct" and t.text in (")", "]", "}"):
            depth -= 1
            if depth == 0:
                close = i
                break
    names = []
    for p in split_angle(sig[1:close]):
        q = [x for x in p if not is_i(x, "mut")]
        if len(q) >= 2 and is_i(q[0]) and is_p(q[1], ":"):
            names.append(q[0].text)
    return names


def body_parts(src, body, strict, what):
    stmts = split_statements(src, body)
    lets = {}
    for s in stmts[:-1]:
        let = parse_let(s)
        if let is None:
            if strict:
                src.bad(s, f"statement other than `let` before the struct literal of {what}")
            continue
        lets[let[0]] = (let[1], let[2])
    tail = stmts[-1]
    if len(tail) == 1 and is_i(tail[0]) and tail[0].text in lets and not lets[tail[0].text][0]:
        tail = lets[tail[0].text][1]        # `let taken = Self { .. }; taken`
    return lets, tail


def build_row(src, tname, decls, fns, new_fn, take_fn, rel):
    """fns: [(name, sig, body)] of the type; → (row dict)"""
    gens, decl_fields = decls.get(tname, ([], []))
    nname, nsig, nbody = new_fn
    kname, ksig, kbody = take_fn
    nlets, ntail = body_parts(src, nbody, False, f"{tname}::{nname}")
    klets, ktail = body_parts(src, kbody, True, f"{tname}::{kname}")
    ncons = constructing(src, ntail, tname)
    kcons = constructing(src, ktail, tname)
    if ncons is None or ncons[0] not in ("literal", "tuple"):
        src.bad(ntail or nbody, f"{tname}::{nname} does not end in a struct literal")
    if kcons is None or kcons[0] not in ("literal", "tuple"):
        src.bad(ktail or kbody, f"{tname}::{kname} does not end in a struct literal")
    if ncons[0] == "tuple":
        nfields, nbase = [(str(i), e, False) for i, e in enumerate(ncons[1])], None
    else:
        nfields, nbase = ncons[1], ncons[2]
    if kcons[0] == "tuple":
        kfields, kbase = [(str(i), e, False) for i, e in enumerate(kcons[1])], None
    else:
        kfields, kbase = kcons[1], kcons[2]
    if nbase is not None:
        src.bad(nbase, f"`..base` in the literal of {tname}::{nname}")
    nctx = Ctx(src, params_of(nsig), nlets, False)
    for f, e, _ in nfields:
        r = nctx.resolve(e)
        if len(r) == 1 and is_i(r[0]):
            nctx.init_ident[f] = r[0].text
    kctx = Ctx(src, params_of(ksig), klets, True)
    ninit = {f: e for f, e, _ in nfields}
    ktreat = {f: e for f, e, _ in kfields}
    if len(ninit) != len(nfields) or len(ktreat) != len(kfields):
        src.bad(ktail, f"a field occurs twice in a literal of {tname}")
    if kbase is not None:
        if tx(kbase) != ["self", ".", "clone", "(", ")"]:
            src.bad(kbase, f"base of the literal of {tname}::{kname} is not `self.clone()`")
    types = dict(decl_fields)
    rows = []
    for f, e, _ in nfields:
        if f in ktreat:
            tr = treatment(kctx, f, ktreat[f])
            ktext, line = rust_text(ktreat[f]), ktreat[f][0].line
        elif kbase is not None:
            tr, ktext, line = ("clone",), "..self.clone()", kbase[0].line
        else:
            src.bad(ktail, f"field `{f}` of {tname}::{nname} is missing in {tname}::{kname}")
        writes = []
        if tr[0] in ("clone", "copy", "untouched"):
            writes = field_writes(src, fns, {nname, kname}, f.split(".")[0])
        rows.append({"name": f, "ty": types.get(f, ""), "init": nctx.value(e), "take": tr, "newRust": rust_text(e),
                     "takeRust": ktext, "takeAt": f"{rel}:{line}", "writes": writes})
    for f in ktreat:
        if f not in ninit:
            src.bad(ktreat[f], f"field `{f}` of {tname}::{kname} is missing in {tname}::{nname}")
    if decl_fields:
        top = {r["name"].split(".")[0] for r in rows}
        if top != {f for f, _ in decl_fields}:
            src.bad(ntail, f"the literal of {tname}::{nname} does not list the declared fields {sorted(f for f, _ in decl_fields)}")
    return {"name": tname, "file": rel, "generics": gens, "newFn": nname, "takeFn": kname, "fields": rows}


def is_take_name(name):
    return name == "take" or name.startswith("take_")


def mut_receiver(sig):
    return tx(sig)[:4] == ["(", "&", "mut", "self"]


def scan_file(repo, rel, rows, wrappers, notes):
    src = Src(repo, rel)
    decls = struct_decls(src)
    by_type = {}
    for trait, tname, fns in impl_blocks(src):
        by_type.setdefault(tname, []).extend(fns)
    for tname, fns in by_type.items():
        takes = [f for f in fns if is_take_name(f[0]) and mut_receiver(f[1])]
        if not takes:
            continue
        cores = []
        for f in takes:
            stmts = split_statements(src, f[2])
            tail = stmts[-1]
            if len(tail) == 1 and is_i(tail[0]):            # `let taken = Self { .. }; taken`
                for st in stmts[:-1]:
                    let = parse_let(st)
                    if let and let[0] == tail[0].text and not let[1]:
                        tail = let[2]
            cons = constructing(src, tail, tname)
            if cons is None:
                if rel == SER + "/outer_sequence_builder.rs" and f[0] == "take_records":
                    cores.append((f, "records"))
                    continue
                src.bad(stmts[-1] or f[2], f"{tname}::{f[0]}: the tail of a reset method is neither a struct literal, a wrapper of another reset method nor the dispatch! forward")
            if cons[0] == "dispatch":
                if len(stmts) != 1:
                    src.bad(f[2], f"{tname}::{f[0]}: statements before the dispatch! forward")
                notes.append((tname, f[0], "dispatch!(self, Self(builder) => builder.take())"))
            elif cons[0] == "wrapper":
                if len(stmts) != 1:
                    src.bad(f[2], f"{tname}::{f[0]}: statements before the wrapped reset method")
                wrappers.append((tname, f[0], cons[1]))
            else:
                cores.append((f, "literal"))
        if not cores:
            continue
        names = {c[0][0] for c in cores}
        if len(names) != 1 or len(cores) != 1:
            src.bad(cores[0][0][2], f"{tname} has {len(cores)} constructing reset methods ({sorted(names)})")
        news = [f for f in fns if f[0] == "new"]
        if len(news) != 1:
            src.bad(cores[0][0][2], f"{tname} has a reset method but {len(news)} `fn new`")
        (core, kind) = cores[0]
        if kind == "records":
            rows.append(records_row(src, tname, decls, fns, news[0], core, rel))
        else:
            rows.append(build_row(src, tname, decls, fns, news[0], core, rel))


def method_style(src, body, field, owners):
    """a reset METHOD (no literal): how does the body use `<owner>.field`?"""
    t = tx(body)
    found = None
    for i in range(len(t) - 2):
        if t[i] in owners and body[i].kind == "ident" and t[i + 1] == "." and t[i + 2] == field and (i + 3 >= len(t) or t[i + 3] != "("):
            if i + 5 < len(t) and t[i + 3] == "." and t[i + 4].startswith("take") and t[i + 5] == "(" and found is None and t[i - 1] != "mut":
                found = ("childTake", t[i + 4]), rust_text(body[i:i + 7]), body[i].line
            else:
                src.bad(body[i:], f"use of field `{field}` in a reset method not recognised")
    return found


RECORDS_BODY = "let mut result = Vec::new(); for (builder, _) in self.0.take_self().fields { result.push(builder); } Ok(result)"
GUARDED_BODY = "self.ensure_consistent()?; self.poisoned = true; let res = op(self)?; self.poisoned = false; Ok(res)"
BUILD_ARRAYS_BODY = ("self.guarded(|this| { let mut arrays = Vec::new(); for field in this.builder.take_records()? "
                     "{ arrays.push(field.into_array()?); } Ok(arrays) })")


def records_row(src, tname, decls, fns, new_fn, take_fn, rel):
    gens, decl_fields = decls.get(tname, ([], []))
    if [f for f, _ in decl_fields] != ["0"]:
        src.bad(take_fn[2], f"{tname} is not a one-field tuple struct")
    if tx(take_fn[2]) != tx_of(RECORDS_BODY):
        src.bad(take_fn[2], f"{tname}::take_records is not `{RECORDS_BODY}`")
    nlets, ntail = body_parts(src, new_fn[2], False, f"{tname}::new")
    ncons = constructing(src, ntail, tname)
    if ncons is None or ncons[0] != "tuple" or len(ncons[1]) != 1:
        src.bad(ntail, f"{tname}::new does not end in `Self(<expr>)`")
    ctx = Ctx(src, params_of(new_fn[1]), nlets, False)
    tr, ktext, line = method_style(src, take_fn[2], "0", ("self",))
    return {"name": tname, "file": rel, "generics": gens, "newFn": "new", "takeFn": take_fn[0], "fields": [
        {"name": "0", "ty": decl_fields[0][1], "init": ctx.value(ncons[1][0]), "take": tr, "newRust": rust_text(ncons[1][0]),
         "takeRust": ktext, "takeAt": f"{rel}:{line}", "writes": []}]}


def top_level_row(repo):
    """internal/array_builder.rs: `ArrayBuilder { builder, schema, poisoned }`, reset by `build_arrays` under `guarded`"""
    src = Src(repo, TOP)
    decls = struct_decls(src)
    if "ArrayBuilder" not in decls:
        raise Unrecognised(f"{TOP}: struct ArrayBuilder not found")
    gens, decl_fields = decls["ArrayBuilder"]
    fns = [f for _tr, tname, fs in impl_blocks(src) if tname == "ArrayBuilder" for f in fs]
    def one(name):
        hits = [f for f in fns if f[0] == name]
        if len(hits) != 1:
            raise Unrecognised(f"{TOP}: expected exactly one `fn {name}` of ArrayBuilder, found {len(hits)}")
        return hits[0]
    new_fn, build, guarded = one("new"), one("build_arrays"), one("guarded")
    if tx(guarded[2]) != tx_of(GUARDED_BODY):
        src.bad(guarded[2], f"ArrayBuilder::guarded is not `{GUARDED_BODY}`")
    if tx(build[2]) != tx_of(BUILD_ARRAYS_BODY):
        src.bad(build[2], f"ArrayBuilder::build_arrays is not `{BUILD_ARRAYS_BODY}`")
    nlets, ntail = body_parts(src, new_fn[2], False, "ArrayBuilder::new")
    ncons = constructing(src, ntail, "ArrayBuilder")
    if ncons is None or ncons[0] != "literal" or ncons[2] is not None:
        src.bad(ntail, "ArrayBuilder::new does not end in a struct literal")
    ctx = Ctx(src, params_of(new_fn[1]), nlets, False)
    # every impl block of the type in the crate (the finishers of marrow_impl.rs / arrow_impl.rs / arrow2_impl.rs, serializer.rs)
    others = []
    base = os.path.join(repo, "serde_arrow", "src")
    for path in sorted(glob.glob(os.path.join(base, "**", "*.rs"), recursive=True)):
        rel = os.path.relpath(path, repo)
        if rel == ENUM_FILE or "/test" in rel or rel.endswith("tests.rs"):
            continue
        s2 = src if rel == TOP else Src(repo, rel)
        for _tr, tname, fs in impl_blocks(s2):
            if tname == "ArrayBuilder":
                others += [(f"{os.path.basename(rel)}::{n}", sig, body) for n, sig, body in fs if not (rel == TOP and n in ("new", "guarded"))]
    rows = []
    types = dict(decl_fields)
    inits = {f: e for f, e, _ in ncons[1]}
    if set(inits) != set(types):
        src.bad(ntail, f"the literal of ArrayBuilder::new does not list the declared fields {sorted(types)}")
    for f, e, _ in ncons[1]:
        if f == "poisoned":
            i = [k for k in range(len(guarded[2]) - 4) if tx(guarded[2][k:k + 4]) == ["self", ".", "poisoned", "="]][-1]
            tr, ktext, line = ("replace", ctx.value([guarded[2][i + 4]])), rust_text(guarded[2][i:i + 5]) + " (fn guarded, after the operation succeeded)", guarded[2][i].line
            writes = field_writes(src, others, {"array_builder.rs::build_arrays"}, f, ("self", "this"))
        else:
            m = method_style(src, build[2], f, ("self", "this"))
            if m is None:
                tr, ktext, line = ("untouched", ""), "(not mentioned in build_arrays)", build[2][0].line
            else:
                tr, ktext, line = m
            writes = field_writes(src, others, {"array_builder.rs::build_arrays"}, f, ("self", "this", "builder")) if tr[0] == "untouched" else []
        rows.append({"name": f, "ty": types.get(f, ""), "init": ctx.value(e), "take": tr, "newRust": rust_text(e),
                     "takeRust": ktext, "takeAt": f"{TOP}:{line}", "writes": writes})
    return {"name": "ArrayBuilder", "file": TOP, "generics": gens, "newFn": "new", "takeFn": "build_arrays", "fields": rows}


# ---------------------------------------------------------------- output

def ty_idents(ty):
    import re
    return re.findall(r"[A-Za-z_][A-Za-z0-9_]*", ty)


def lean_row(r):
    fs = []
    for f in r["fields"]:
        fs.append("      { name := %s, ty := %s, tyIdents := [%s], init := %s, take := %s,\n        newRust := %s, takeRust := %s, takeAt := %s, writes := [%s] }" % (
            lstr(f["name"]), lstr(f["ty"]), ", ".join(lstr(x) for x in ty_idents(f["ty"])), lean_val(f["init"]), lean_take(f["take"]), lstr(f["newRust"]), lstr(f["takeRust"]),
            lstr(f["takeAt"]), ", ".join(lstr(w) for w in f["writes"])))
    return ("  { name := %s, file := %s, generics := [%s], newFn := %s, takeFn := %s,\n    fields := [\n%s] }" % (
        lstr(r["name"]), lstr(r["file"]), ", ".join(lstr(g) for g in r["generics"]), lstr(r["newFn"]), lstr(r["takeFn"]), ",\n".join(fs)))


def render(repo):
    rows, wrappers, notes = [], [], []
    files = sorted(os.path.relpath(p, repo) for p in glob.glob(os.path.join(repo, SER, "*.rs")))
    if not files:
        raise Unrecognised(f"no source file under {SER}")
    for rel in files + [ARRAY_EXT]:
        scan_file(repo, rel, rows, wrappers, notes)
    rows.append(top_level_row(repo))
    if [n for n in notes if n[0] == "ArrayBuilder"] != [("ArrayBuilder", "take", "dispatch!(self, Self(builder) => builder.take())")]:
        raise Unrecognised(f"{ENUM_FILE}: `ArrayBuilder::take` (the enum) is not the dispatch! forward to the variants' `take`")
    out = ["-- generated by translator/run.py (takes.py) from serde_arrow/src/internal/{serialization/*.rs, utils/array_ext.rs, array_builder.rs}",
           "-- — do not edit; ./check regenerates this file from the repository before every build",
           "import SaModel.Build.TakeTable",
           "namespace SaModel.Generated.Takes",
           "open SaModel.Build.TakeTable",
           "",
           "/-- one row per type with a constructing reset method: how `new` initialises each field, what the reset method leaves in it -/",
           "def structs : List StructRow := [",
           ",\n".join(lean_row(r) for r in rows) + "]",
           "",
           "/-- `fn take` methods that only wrap another reset method of the same type: (type, method, callee) -/",
           "def wrappers : List Wrapper := [" + ", ".join(f"({lstr(a)}, {lstr(b)}, {lstr(c)})" for a, b, c in wrappers) + "]",
           "",
           "/-- `ArrayBuilder::take` of serialization/array_builder.rs (the enum) forwards to the `take` of the variant's builder -/",
           "def enumTakeForwards : Bool := true",
           "",
           "end SaModel.Generated.Takes"]
    return "\n".join(out) + "\n"


GENERATORS = [("Takes", ["C10", "C01", "C03", "C16", "C18"], render)]
