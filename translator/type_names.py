"""
Generated/TypeNames.lean (property C09): the name tables of the schema mini language.

  * readerArms     schema/serde/deserialize.rs  `build_data_type`: the arms of
                   `match Term::from_str(&data_type)?.as_call()? { ("A" | "B", [x, y]) => BODY, …, _ => fail!(…) }`
                   → (names, number of term arguments, the constructor `T::X` the body ends in, what the body does with
                   `children`: nothing / `<[_; N]>::try_from(children)` / anything else)
  * printerArms    schema/serde/serialize.rs  `impl Serialize for PrettyFieldDataType`: the arms of `match self.0 { … }`:
                   `T::X => "Name".serialize(serializer)` or `T::X(a, _, b) => format!("Name({a}, {b:?})").serialize(serializer)`
                   → (constructor, printed name, per printed argument: position in the constructor pattern and whether
                   it is written with `{:?}`); the last arm must be `binder => Err(…)`
  * withChildren   serialize.rs  `is_data_type_with_children`: `matches!(data_type, T::A(_, _) | T::B(_) | …)`
  * optionNames    utils/dsl.rs  `Term::as_option`: `("None", false, []) => Ok(None)`, `("Some", false, [arg]) => Ok(Some(arg))`
  * strategyDisplay / strategyFromStr   schema/strategy.rs  `Display` (`Self::X => write!(f, "X")`) and `FromStr`
                   (`"X" => Ok(Self::X)`, `_ => fail!(…)`)

Anything else in these places raises Unrecognised (file and line).
"""
import os
import re

from rust_lex import Unrecognised, tokenize, match_close, find_seq, split_top, show
from coerce_arms import CTORS, CTOR_ARITY, drop_trailing_commas, open_text

STRATEGIES = ["InconsistentTypes", "TupleAsStruct", "MapAsStruct", "UnknownVariant"]


def lstr(s):
    out = ['"']
    for ch in s:
        if ch == "\\":
            out.append("\\\\")
        elif ch == '"':
            out.append('\\"')
        elif ch == "\n":
            out.append("\\n")
        elif ch == "\t":
            out.append("\\t")
        elif ord(ch) < 32 or ord(ch) == 127:
            out.append("\\x%02x" % ord(ch))
        else:
            out.append(ch)
    out.append('"')
    return "".join(out)


def bad(path, toks, what):
    line = toks[0].line if toks else "?"
    raise Unrecognised(f"{path}:{line}: {what}: `{show(toks)}`")


def fn_body(toks, name, path):
    i = find_seq(toks, ["fn", name])
    if i < 0:
        raise Unrecognised(f"{path}: `fn {name}` not found")
    if find_seq(toks, ["fn", name], i + 1) >= 0:
        raise Unrecognised(f"{path}: more than one `fn {name}`")
    j = i
    while j < len(toks) and toks[j].text != "{":
        if toks[j].text in ("(", "[") and toks[j].kind == "punct":
            j = match_close(toks, j, path)
        j += 1
    if j >= len(toks):
        raise Unrecognised(f"{path}: `fn {name}` has no body")
    return toks[j + 1:match_close(toks, j, path)], toks[i].line


def split_arms(toks, path, what):
    """match arms → list of (pattern tokens, guard tokens, body tokens); bodies are blocks or run to the next top-level comma"""
    arms, p = [], 0
    while p < len(toks):
        start = p
        depth = 0
        while p < len(toks) and not (toks[p].text == "=>" and toks[p].kind == "punct" and depth == 0):
            if toks[p].kind == "punct" and toks[p].text in "([{":
                depth += 1
            elif toks[p].kind == "punct" and toks[p].text in ")]}":
                depth -= 1
            p += 1
        if p >= len(toks):
            bad(path, toks[start:], f"{what}: arm without `=>`")
        head = toks[start:p]
        p += 1
        if p >= len(toks):
            bad(path, toks[start:], f"{what}: arm without a body")
        if toks[p].text == "{" and toks[p].kind == "punct":
            e = match_close(toks, p, path)
            body = toks[p:e + 1]
            p = e + 1
            if p < len(toks) and toks[p].text == ",":
                p += 1
        else:
            depth, q = 0, p
            while q < len(toks) and not (toks[q].text == "," and toks[q].kind == "punct" and depth == 0):
                if toks[q].kind == "punct" and toks[q].text in "([{":
                    depth += 1
                elif toks[q].kind == "punct" and toks[q].text in ")]}":
                    depth -= 1
                q += 1
            body = toks[p:q]
            p = q + 1
        guard = []
        for k, t in enumerate(head):
            if t.kind == "ident" and t.text == "if":
                head, guard = head[:k], head[k + 1:]
                break
        arms.append((head, guard, body))
    return arms


def unbrace(body, path):
    if body and body[0].text == "{" and body[0].kind == "punct" and match_close(body, 0, path) == len(body) - 1:
        return body[1:-1]
    return body


def ctor_of_path(toks, path, what, prefix="T"):
    """`T :: X` [ `( … )` ] at the start of toks → (X, rest)"""
    if len(toks) < 3 or toks[0].text != prefix or toks[1].text != "::" or toks[2].kind != "ident":
        bad(path, toks, f"{what}: expected `{prefix}::<Constructor>`")
    name = toks[2].text
    if name not in CTORS:
        bad(path, toks, f"{what}: unknown DataType constructor `{name}`")
    return name, toks[3:]


# ---------------------------------------------------------------- build_data_type

def parse_reader(path):
    toks = drop_trailing_commas(tokenize(open_text(path), path))
    body, line = fn_body(toks, "build_data_type", path)
    if [t.text for t in body[:5]] != ["use", "DataType", "as", "T", ";"]:
        bad(path, body, "build_data_type: expected `use DataType as T;` first")
    head = "let res = match Term :: from_str ( & data_type ) ? . as_call ( ) ? {".split()
    if [t.text for t in body[5:5 + len(head)]] != head:
        bad(path, body[5:], "build_data_type: expected `let res = match Term::from_str(&data_type)?.as_call()? {`")
    mopen = 5 + len(head) - 1
    mclose = match_close(body, mopen, path)
    if [t.text for t in body[mclose + 1:]] != [";", "Ok", "(", "res", ")"]:
        bad(path, body[mclose + 1:], "build_data_type: expected `; Ok(res)` after the match")
    arms = split_arms(body[mopen + 1:mclose], path, "build_data_type")
    if not arms:
        raise Unrecognised(f"{path}:{line}: build_data_type: no arms")
    rows = []
    for k, (pat, guard, abody) in enumerate(arms):
        if guard:
            bad(path, pat, "build_data_type: guards are not supported")
        last = k == len(arms) - 1
        if len(pat) == 1 and pat[0].text == "_":
            if not last:
                bad(path, pat, "build_data_type: `_` arm before the end")
            inner = unbrace(abody, path)
            if [t.text for t in inner[:3]] != ["fail", "!", "("] or match_close(inner, 2, path) != len(inner) - 1:
                bad(path, abody, "build_data_type: the `_` arm must be `fail!(…)`")
            continue
        if last:
            bad(path, pat, "build_data_type: the last arm must be `_ => fail!(…)`")
        if not pat or pat[0].text != "(" or match_close(pat, 0, path) != len(pat) - 1:
            bad(path, pat, "build_data_type: pattern is not `(names, [args])`")
        parts = split_top(pat[1:-1], ",")
        if len(parts) != 2:
            bad(path, pat, "build_data_type: pattern is not a pair")
        names = []
        for alt in split_top(parts[0], "|"):
            if len(alt) != 1 or alt[0].kind != "str":
                bad(path, parts[0], "build_data_type: names must be string literals joined by `|`")
            if not re.fullmatch(r"[A-Za-z0-9+-]+", alt[0].text):
                bad(path, alt, "build_data_type: a name that is not an identifier of the mini language")
            names.append(alt[0].text)
        sl = parts[1]
        if not sl or sl[0].text != "[" or match_close(sl, 0, path) != len(sl) - 1:
            bad(path, sl or pat, "build_data_type: second component must be a slice pattern `[…]`")
        args = split_top(sl[1:-1], ",")
        for a in args:
            if len(a) != 1 or a[0].kind != "ident":
                bad(path, a, "build_data_type: slice pattern entries must be single bindings (no `..`, no sub-patterns)")
        inner = unbrace(abody, path)
        stmts = split_top(inner, ";") if abody is not inner else [inner]
        if not stmts:
            bad(path, abody, "build_data_type: empty body")
        final = stmts[-1]
        if abody is not inner and inner and inner[-1].text == ";" and inner[-1].kind == "punct":
            bad(path, abody, "build_data_type: a block body must end in an expression `T::X…`")
        # a statement that ends in a block (`for … { … }`) needs no `;`: the final expression starts at the last
        # top-level `T ::`
        depth, at = 0, None
        for q, t in enumerate(final):
            if t.kind == "punct" and t.text in "([{":
                depth += 1
            elif t.kind == "punct" and t.text in ")]}":
                depth -= 1
            elif depth == 0 and t.kind == "ident" and t.text == "T" and q + 1 < len(final) and final[q + 1].text == "::":
                at = q
        if at is None:
            bad(path, final, "build_data_type: an arm does not end in `T::<Constructor>…`")
        if at > 0 and not (final[at - 1].kind == "punct" and final[at - 1].text == "}"):
            bad(path, final, "build_data_type: unexpected code before the final `T::…` expression")
        final = final[at:]
        ctor, rest = ctor_of_path(final, path, "build_data_type: final expression of an arm")
        if rest:
            if rest[0].text != "(" or match_close(rest, 0, path) != len(rest) - 1:
                bad(path, final, "build_data_type: final expression is not `T::X` or `T::X(…)`")
            nargs = len(split_top(rest[1:-1], ","))
        else:
            nargs = 0
        if nargs != CTOR_ARITY.get(ctor, 0):
            bad(path, final, f"build_data_type: `T::{ctor}` applied to {nargs} argument(s), expected {CTOR_ARITY.get(ctor, 0)}")
        n_children = sum(1 for t in abody if t.kind == "ident" and t.text == "children")
        tf = find_seq(abody, ["<", "[", "_", ";"])
        if n_children == 0:
            rule = ".ignored"
        elif tf >= 0:
            seq = [t.text for t in abody[tf:tf + 12]]
            if not (len(seq) == 12 and abody[tf + 4].kind == "num" and seq[5:] == ["]", ">", "::", "try_from", "(", "children", ")"]):
                bad(path, abody[tf:], "build_data_type: expected `<[_; N]>::try_from(children)`")
            if n_children != 1:
                bad(path, abody, "build_data_type: `children` used besides `<[_; N]>::try_from(children)`")
            rule = f"(.exact {int(abody[tf + 4].text)})"
        else:
            rule = ".all"
        rows.append((names, len(args), ctor, rule))
    return rows


# ---------------------------------------------------------------- PrettyFieldDataType, is_data_type_with_children

def parse_printer(path):
    toks = drop_trailing_commas(tokenize(open_text(path), path))
    i = find_seq(toks, "impl serde :: Serialize for PrettyFieldDataType".split())
    if i < 0:
        raise Unrecognised(f"{path}: `impl serde::Serialize for PrettyFieldDataType` not found")
    j = i
    while toks[j].text != "{":
        j += 1
    impl = toks[j + 1:match_close(toks, j, path)]
    body, line = fn_body(impl, "serialize", path)
    head = "use DataType as T ; match self . 0 {".split()
    if [t.text for t in body[:len(head)]] != head:
        bad(path, body, "PrettyFieldDataType::serialize: expected `use DataType as T; match self.0 {`")
    mclose = match_close(body, len(head) - 1, path)
    if mclose != len(body) - 1:
        bad(path, body[mclose + 1:], "PrettyFieldDataType::serialize: code after the match")
    arms = split_arms(body[len(head):mclose], path, "PrettyFieldDataType")
    rows = []
    ser = [".", "serialize", "(", "serializer", ")"]
    for k, (pat, guard, abody) in enumerate(arms):
        if guard:
            bad(path, pat, "PrettyFieldDataType: guards are not supported")
        last = k == len(arms) - 1
        if len(pat) == 1 and pat[0].kind == "ident" and pat[0].text != "T":
            if not last:
                bad(path, pat, "PrettyFieldDataType: catch-all arm before the end")
            inner = unbrace(abody, path)
            if [t.text for t in inner[:2]] != ["Err", "("]:
                bad(path, abody, "PrettyFieldDataType: the catch-all arm must be `Err(…)`")
            continue
        if last:
            bad(path, pat, "PrettyFieldDataType: the last arm must be `binder => Err(…)`")
        ctor, rest = ctor_of_path(pat, path, "PrettyFieldDataType: pattern")
        subs = []
        if rest:
            if rest[0].text != "(" or match_close(rest, 0, path) != len(rest) - 1:
                bad(path, pat, "PrettyFieldDataType: pattern is not `T::X` or `T::X(…)`")
            for sub in split_top(rest[1:-1], ","):
                if len(sub) != 1 or sub[0].kind != "ident":
                    bad(path, sub, "PrettyFieldDataType: sub-patterns must be `_` or bindings")
                subs.append(sub[0].text)
        if len(subs) != CTOR_ARITY.get(ctor, 0):
            bad(path, pat, f"PrettyFieldDataType: `T::{ctor}` has {CTOR_ARITY.get(ctor, 0)} argument(s), pattern has {len(subs)}")
        inner = unbrace(abody, path)
        if len(inner) == 6 and inner[0].kind == "str" and [t.text for t in inner[1:]] == ser:
            name, args = inner[0].text, []
            if not re.fullmatch(r"[A-Za-z0-9]+", name):
                bad(path, inner, "PrettyFieldDataType: a literal that is not a plain name")
        elif (len(inner) == 10 and [t.text for t in inner[:3]] == ["format", "!", "("] and inner[3].kind == "str"
              and inner[4].text == ")" and [t.text for t in inner[5:]] == ser):
            m = re.fullmatch(r"([A-Za-z0-9]+)\((.*)\)", inner[3].text)
            if not m:
                bad(path, inner, "PrettyFieldDataType: format string is not `Name(…)`")
            name, args = m.group(1), []
            for piece in m.group(2).split(", "):
                pm = re.fullmatch(r"\{([a-z_][a-z0-9_]*)(:\?)?\}", piece)
                if not pm:
                    bad(path, inner, f"PrettyFieldDataType: format argument `{piece}` is not `{{name}}` or `{{name:?}}` (arguments are separated by `, `)")
                if pm.group(1) not in subs or pm.group(1) == "_":
                    bad(path, inner, f"PrettyFieldDataType: `{{{pm.group(1)}}}` is not bound by the pattern")
                args.append((subs.index(pm.group(1)), bool(pm.group(2))))
        else:
            bad(path, abody, 'PrettyFieldDataType: body is neither `"Name".serialize(serializer)` nor `format!("Name(…)").serialize(serializer)`')
        rows.append((ctor, name, args))
    # is_data_type_with_children
    body, line = fn_body(toks, "is_data_type_with_children", path)
    head = "use DataType as T ; matches ! ( data_type ,".split()
    if [t.text for t in body[:len(head)]] != head or body[-1].text != ")":
        bad(path, body, "is_data_type_with_children: expected `use DataType as T; matches!(data_type, …)`")
    with_children = []
    for alt in split_top(body[len(head):-1], "|"):
        ctor, rest = ctor_of_path(alt, path, "is_data_type_with_children")
        if rest:
            if rest[0].text != "(" or match_close(rest, 0, path) != len(rest) - 1 or any(
                    len(s) != 1 or s[0].text != "_" for s in split_top(rest[1:-1], ",")):
                bad(path, alt, "is_data_type_with_children: only `_` sub-patterns are supported")
        with_children.append(ctor)
    return rows, with_children


# ---------------------------------------------------------------- Term::as_option

def parse_as_option(path):
    toks = drop_trailing_commas(tokenize(open_text(path), path))
    body, line = fn_body(toks, "as_option", path)
    head = "match self . as_parts ( ) {".split()
    if [t.text for t in body[:len(head)]] != head or match_close(body, len(head) - 1, path) != len(body) - 1:
        bad(path, body, "Term::as_option: expected a single `match self.as_parts() { … }`")
    arms = split_arms(body[len(head):-1], path, "Term::as_option")
    rows = []
    for k, (pat, guard, abody) in enumerate(arms):
        tx = [t.text for t in pat]
        if k == len(arms) - 1:
            if tx != ["_"] or [t.text for t in unbrace(abody, path)[:3]] != ["fail", "!", "("]:
                bad(path, pat, "Term::as_option: the last arm must be `_ => fail!(…)`")
            continue
        if guard or len(pat) < 7 or pat[1].kind != "str" or tx[0] != "(" or tx[2:5] != [",", "false", ","] or tx[5] != "[" or tx[-2:] != ["]", ")"]:
            bad(path, pat, 'Term::as_option: pattern is not `("Name", false, [args])`')
        args = split_top(pat[6:-2], ",")
        res = [t.text for t in abody]
        if res == ["Ok", "(", "None", ")"] and len(args) == 0:
            rows.append((pat[1].text, 0, False))
        elif len(args) == 1 and len(args[0]) == 1 and res == ["Ok", "(", "Some", "(", args[0][0].text, ")", ")"]:
            rows.append((pat[1].text, 1, True))
        else:
            bad(path, abody, "Term::as_option: result is neither `Ok(None)` for `[]` nor `Ok(Some(arg))` for `[arg]`")
    return rows


# ---------------------------------------------------------------- Strategy Display / FromStr

def parse_strategy(path):
    toks = drop_trailing_commas(tokenize(open_text(path), path))

    def impl_fn(header, fn):
        i = find_seq(toks, header.split())
        if i < 0:
            raise Unrecognised(f"{path}: `{header}` not found")
        j = i
        while toks[j].text != "{":
            j += 1
        impl = toks[j + 1:match_close(toks, j, path)]
        body, _ = fn_body(impl, fn, path)
        k = find_seq(body, ["match"])
        if k < 0:
            bad(path, body, f"{header}: no match")
        while body[k].text != "{":
            k += 1
        e = match_close(body, k, path)
        return body[:k], split_arms(body[k + 1:e], path, header), body[e + 1:]

    pre, arms, post = impl_fn("impl std :: fmt :: Display for Strategy", "fmt")
    if [t.text for t in pre] != ["match", "self"] or post:
        bad(path, pre or post, "Display for Strategy: expected a single `match self { … }`")
    display = []
    for pat, guard, abody in arms:
        tx = [t.text for t in pat]
        b = unbrace(abody, path)
        if guard or len(tx) != 3 or tx[:2] != ["Self", "::"] or tx[2] not in STRATEGIES:
            bad(path, pat, "Display for Strategy: pattern is not `Self::<known strategy>`")
        if not (len(b) == 7 and [t.text for t in b[:5]] == ["write", "!", "(", "f", ","] and b[5].kind == "str" and b[6].text == ")"):
            bad(path, abody, 'Display for Strategy: body is not `write!(f, "Name")`')
        if "{" in b[5].text:
            bad(path, abody, "Display for Strategy: format string with placeholders")
        display.append((tx[2], b[5].text))
    pre, arms, post = impl_fn("impl FromStr for Strategy", "from_str")
    if [t.text for t in pre] != ["match", "s"] or post:
        bad(path, pre or post, "FromStr for Strategy: expected a single `match s { … }`")
    from_str = []
    for k, (pat, guard, abody) in enumerate(arms):
        b = [t.text for t in unbrace(abody, path)]
        if k == len(arms) - 1:
            if [t.text for t in pat] != ["_"] or b[:3] != ["fail", "!", "("]:
                bad(path, pat, "FromStr for Strategy: the last arm must be `_ => fail!(…)`")
            continue
        if guard or len(pat) != 1 or pat[0].kind != "str":
            bad(path, pat, "FromStr for Strategy: pattern is not a string literal")
        if not (len(b) == 6 and b[:4] == ["Ok", "(", "Self", "::"] and b[4] in STRATEGIES and b[5] == ")"):
            bad(path, abody, "FromStr for Strategy: body is not `Ok(Self::<known strategy>)`")
        from_str.append((pat[0].text, b[4]))
    return display, from_str


def lean_strategy(name):
    return "." + name[0].lower() + name[1:]


def render(repo):
    internal = os.path.join(repo, "serde_arrow", "src", "internal")
    reader = parse_reader(os.path.join(internal, "schema", "serde", "deserialize.rs"))
    printer, with_children = parse_printer(os.path.join(internal, "schema", "serde", "serialize.rs"))
    options = parse_as_option(os.path.join(internal, "utils", "dsl.rs"))
    display, from_str = parse_strategy(os.path.join(internal, "schema", "strategy.rs"))
    out = []
    out.append("-- generated by translator/run.py from serde_arrow/src/internal/{schema/serde/deserialize.rs, schema/serde/serialize.rs,")
    out.append("-- utils/dsl.rs, schema/strategy.rs} — do not edit; ./check regenerates this file from the repository before every build")
    out.append("import SaModel.Codec.TypeNameTable")
    out.append("namespace SaModel.Generated.TypeNames")
    out.append("open SaModel SaModel.TypeNameTable")
    out.append("")
    out.append("/-- `build_data_type`: the arms of the match on `(name, term arguments)` in source order (the final `_ => fail!` arm is implied) -/")
    out.append("def readerArms : List ReaderArm := [")
    out.append(",\n".join(
        f"  {{ names := [{', '.join(lstr(n) for n in names)}], termArgs := {nargs}, ctor := .{ctor}, children := {rule} }}"
        for names, nargs, ctor, rule in reader) + "]")
    out.append("")
    out.append("/-- `PrettyFieldDataType`: the arms of `match self.0` in source order (the final `dt => Err(…)` arm is implied);")
    out.append("args = for every printed argument its position in the constructor and whether it is written with `{:?}` -/")
    out.append("def printerArms : List PrinterArm := [")
    out.append(",\n".join(
        f"  {{ ctor := .{ctor}, head := {lstr(name)}, args := [{', '.join(f'({p}, {str(d).lower()})' for p, d in args)}] }}"
        for ctor, name, args in printer) + "]")
    out.append("")
    out.append("/-- `is_data_type_with_children` -/")
    out.append("def withChildren : List Ctor := [" + ", ".join("." + c for c in with_children) + "]")
    out.append("")
    out.append("/-- `Term::as_option`: (name, number of arguments, is it `Some`) -/")
    out.append("def optionNames : List (String × Nat × Bool) := [" + ", ".join(f"({lstr(n)}, {k}, {str(s).lower()})" for n, k, s in options) + "]")
    out.append("")
    out.append("/-- `impl Display for Strategy` -/")
    out.append("def strategyDisplay : List (SchemaJson.Strategy × String) := [" + ", ".join(f"({lean_strategy(c)}, {lstr(n)})" for c, n in display) + "]")
    out.append("")
    out.append("/-- `impl FromStr for Strategy` (the final `_ => fail!` arm is implied) -/")
    out.append("def strategyFromStr : List (String × SchemaJson.Strategy) := [" + ", ".join(f"({lstr(n)}, {lean_strategy(c)})" for n, c in from_str) + "]")
    out.append("")
    out.append("end SaModel.Generated.TypeNames")
    return "\n".join(out) + "\n"
